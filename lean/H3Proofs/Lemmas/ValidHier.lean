/-
Validity (the documented layout, `ValidN` ⇔ `layoutSpec` ⇔ generated isValidCell) and the hierarchy:
valid cells have valid parents and valid children, cellToChildPos succeeds on them, and every valid
cell is among the children of each of its ancestors.
-/
import H3Proofs.Lemmas.Valid
import H3Proofs.Props.C04Children

namespace H3.Valid
open H3 H3.Rank H3.Bits H3.Hier H3.CS H3.C13 H3.C04C

theorem valid_res_le (x : BitVec 64) : getRes x ≤ 15 := by have := getRes_lt x; omega

theorem valid_ne_zero (x : BitVec 64) (hv : ValidN x) : x ≠ 0#64 := by
  intro e; have := hv.2.1; rw [e] at this; revert this; decide

/-- list-level form of "valid under a pentagon" -/
theorem pentDigits_of : ∀ ds : List Nat, Rank.Digits ds →
    (∀ i (hi : i < ds.length), ds[i] = 1 → ∃ j, ∃ hj : j < i, ds[j]'(by omega) ≠ 0) → PentDigits ds := by
  intro ds
  induction ds with
  | nil => intro _ _; trivial
  | cons d rest ih =>
    intro hd hf
    cases d with
    | zero =>
      apply ih (fun x hx => hd x (by simp [hx]))
      intro i hi h1
      obtain ⟨j, hj, hne⟩ := hf (i + 1) (by simp; omega) (by simpa using h1)
      cases j with
      | zero => simp at hne
      | succ j => exact ⟨j, by omega, by simpa using hne⟩
    | succ d =>
      have h7 := hd (d + 1) (by simp)
      refine ⟨?_, h7, fun x hx => hd x (by simp [hx])⟩
      by_contra hc
      have hd0 : d = 0 := by omega
      subst hd0
      obtain ⟨j, hj, _⟩ := hf 0 (by simp) (by simp)
      omega

theorem pentDigits_digits : ∀ ds : List Nat, PentDigits ds → Rank.Digits ds := by
  intro ds
  induction ds with
  | nil => intro _ x hx; simp at hx
  | cons d rest ih =>
    intro h x hx
    cases d with
    | zero =>
      rcases List.mem_cons.mp hx with e | e
      · omega
      · exact ih h x e
    | succ d =>
      obtain ⟨_, a, b⟩ := h
      rcases List.mem_cons.mp hx with e | e
      · omega
      · exact b x e

theorem pentDigits_first : ∀ ds : List Nat, PentDigits ds →
    ∀ i (hi : i < ds.length), ds[i] = 1 → ∃ j, ∃ hj : j < i, ds[j]'(by omega) ≠ 0 := by
  intro ds
  induction ds with
  | nil => intro _ i hi; simp at hi
  | cons d rest ih =>
    intro h i hi h1
    cases d with
    | zero =>
      cases i with
      | zero => simp at h1
      | succ i =>
        obtain ⟨j, hj, hne⟩ := ih h i (by simpa using hi) (by simpa using h1)
        exact ⟨j + 1, by omega, by simpa using hne⟩
    | succ d =>
      obtain ⟨a, _, _⟩ := h
      cases i with
      | zero => simp at h1; omega
      | succ i => exact ⟨0, by omega, by simp⟩

theorem digitsBetween_get (h : BitVec 64) (p m i : Nat) (hi : i < (digitsBetween h p m).length) :
    (digitsBetween h p m)[i] = getDigit h (p + 1 + i) := by
  simp [digitsBetween, List.getElem_range']

/-- **V2: the parent of a valid cell is valid** -/
theorem valid_parent (x : BitVec 64) (hv : ValidN x) (p : Nat) (hp : p ≤ getRes x) :
    ∃ q, cellToParent x p = .ok q ∧ ValidN q ∧ getRes q = p ∧ getBaseCell q = getBaseCell x ∧
      ∀ r, 1 ≤ r → r ≤ p → getDigit q r = getDigit x r := by
  obtain ⟨q, hq, r1, r2, r3, r4, r5, r6⟩ := cellToParent_spec x p hp
  obtain ⟨v1, v2, v3, v4, v5, v6⟩ := hv
  have hdig : ∀ r, 1 ≤ r → r ≤ p → getDigit q r = getDigit x r := by
    intro r h1 h2
    rw [r6 r h1 (by have := valid_res_le x; omega)]
    have : ¬ (p < r ∧ r ≤ getRes x) := by omega
    simp [this]
  refine ⟨q, hq, ⟨by rw [r5, v1], by rw [r3, v2], by rw [r4, v3], by rw [r2]; exact v4, ?_, ?_⟩, r1, r2, hdig⟩
  · intro r h1 h15
    rw [r6 r h1 h15, r1]
    have := v5 r h1 h15
    by_cases a : r ≤ p
    · have c : ¬ (p < r ∧ r ≤ getRes x) := by omega
      have d : r ≤ getRes x := by omega
      rw [if_neg c, if_pos a]
      rw [if_pos d] at this
      exact this
    · by_cases b : r ≤ getRes x
      · have c : (p < r ∧ r ≤ getRes x) := by omega
        simp [a, c]
      · have c : ¬ (p < r ∧ r ≤ getRes x) := by omega
        rw [if_neg c, if_neg a]
        rw [if_neg b] at this
        exact this
  · rw [r2, r1]
    intro hpent r h1 hr hd1
    rw [hdig r h1 hr] at hd1
    obtain ⟨r', a1, a2, a3⟩ := v6 hpent r h1 (by omega) hd1
    exact ⟨r', a1, a2, by rw [hdig r' a1 (by omega)]; exact a3⟩

/-- **V1: cellToChildPos succeeds on valid cells** (for every parent resolution ≤ the cell's) -/
theorem valid_childPos_ok (x : BitVec 64) (hv : ValidN x) (p : Nat) (hp : p ≤ getRes x) :
    ∃ pos, cellToChildPosS x p = .ok pos := by
  obtain ⟨q, hq, hqv, qres, qbc, qdig⟩ := valid_parent x hv p hp
  obtain ⟨v1, v2, v3, v4, v5, v6⟩ := hv
  have hx15 := valid_res_le x
  unfold cellToChildPosS
  simp only [hq, Int.toNat_natCast]
  have hdigs : Rank.Digits (digitsBetween x p (getRes x - p)) := by
    intro d hd
    simp only [digitsBetween, List.mem_map, List.mem_range'_1] at hd
    obtain ⟨r, ⟨a, b⟩, rfl⟩ := hd
    have := v5 r (by omega) (by omega)
    have c : r ≤ getRes x := by omega
    simpa [c] using this
  by_cases hP : isPentagon q = true
  · rw [hP]
    refine ⟨_, posOfDigits_pent _ (pentDigits_of _ hdigs ?_)⟩
    intro i hi h1
    rw [digitsBetween_get] at h1
    rw [digitsBetween_length] at hi
    obtain ⟨hbcp, hzero⟩ := (isPentagon_iff q).mp hP
    rw [qbc] at hbcp
    obtain ⟨r', a1, a2, a3⟩ := v6 hbcp (p + 1 + i) (by omega) (by omega) h1
    have hgt : p < r' := by
      by_contra hc
      have := hzero r' a1 (by rw [qres]; omega)
      rw [qdig r' a1 (by omega)] at this
      exact a3 this
    refine ⟨r' - p - 1, by omega, ?_⟩
    rw [digitsBetween_get]
    rw [show p + 1 + (r' - p - 1) = r' by omega]
    exact a3
  · have : isPentagon q = false := by simpa using hP
    rw [this]
    exact ⟨_, posOfDigits_hex _ hdigs⟩

/-- **V4 (partition over valid cells): every valid cell is among the children, at its own
resolution, of each of its ancestors, and the ancestor is valid** -/
theorem valid_mem_children (x : BitVec 64) (hv : ValidN x) (p : Nat) (hp : p ≤ getRes x) :
    ∃ q, cellToParent x p = .ok q ∧ ValidN q ∧ getRes q = p ∧ x ∈ cellToChildrenS q (getRes x) := by
  obtain ⟨pos, hpos⟩ := valid_childPos_ok x hv p hp
  obtain ⟨q, hq, hmem⟩ := mem_children_of_ancestor x p hp (valid_ne_zero x hv) pos hpos
  obtain ⟨q', hq', hqv, qres, _, _⟩ := valid_parent x hv p hp
  rw [hq] at hq'; cases hq'
  exact ⟨q, hq, hqv, qres, hmem⟩

theorem valid_parentNormal (h : BitVec 64) (hv : ValidN h) (c : Nat) (hc : c ≤ 15) : ParentNormal h c := by
  intro r h1 h2
  have := hv.2.2.2.2.1 r (by omega) (by omega)
  have a : ¬ r ≤ getRes h := by omega
  simpa [a] using this

/-- **V3: the children of a valid cell are valid**, have the requested resolution and the cell as parent -/
theorem valid_children (h : BitVec 64) (hv : ValidN h) (c : Nat) (h1 : getRes h ≤ c) (h2 : c ≤ 15)
    (y : BitVec 64) (hy : y ∈ cellToChildrenS h c) :
    ValidN y ∧ getRes y = c ∧ cellToParent y (getRes h) = .ok h := by
  have h0 := valid_ne_zero h hv
  have hn := valid_parentNormal h hv c h2
  obtain ⟨i, hi, rfl⟩ := List.getElem_of_mem hy
  obtain ⟨pres, ppar, _⟩ := children_props h c h0 h1 h2 hn i hi
  refine ⟨?_, pres, ppar⟩
  -- the child as a digit string written below h
  have hdef := childrenS_def h c h0 h1 h2
  have hi' : i < ((childDigitStrings (isPentagon h) (c - getRes h)).map
      (writeDigits (setRes h c) (getRes h))).length := by rw [← hdef]; exact hi
  have hyeq : (cellToChildrenS h c)[i] =
      writeDigits (setRes h c) (getRes h) ((childDigitStrings (isPentagon h) (c - getRes h))[i]'(by simpa using hi')) := by
    simp only [hdef, List.getElem_map]
  set ds := (childDigitStrings (isPentagon h) (c - getRes h))[i]'(by simpa using hi') with hds
  have hmem : ds ∈ childDigitStrings (isPentagon h) (c - getRes h) := List.getElem_mem _
  have hlenD : ds.length = c - getRes h ∧ Rank.Digits ds ∧ (isPentagon h = true → PentDigits ds) := by
    cases hP : isPentagon h with
    | true =>
      rw [hP] at hmem
      obtain ⟨a, b⟩ := (pent_strings (c - getRes h)).1 ds hmem
      exact ⟨a, pentDigits_digits ds b, fun _ => b⟩
    | false =>
      rw [hP] at hmem
      obtain ⟨a, b⟩ := (hex_strings (c - getRes h)).1 ds hmem
      exact ⟨a, b, fun e => by cases e⟩
  obtain ⟨hlen, hdigs, hpentD⟩ := hlenD
  have hlt8 : ∀ d ∈ ds, d < 8 := fun d hd => by have := hdigs d hd; omega
  have hfit : getRes h + ds.length ≤ 15 := by omega
  obtain ⟨w1, w2, w3, w4, w5, w6⟩ := writeDigits_outside ds (setRes h c) (getRes h) hfit hlt8
  have hbetween := digitsBetween_writeDigits ds (setRes h c) (getRes h) hfit hlt8
  have hsr : ∀ r, 1 ≤ r → r ≤ 15 → getDigit (setRes h c) r = getDigit h r :=
    fun r a b => (getDigit_setRes h c r (by omega) ⟨a, b⟩).1
  obtain ⟨_, s2, s3, s4, s5⟩ := getDigit_setRes h c 1 (by omega) ⟨by omega, by omega⟩
  obtain ⟨v1, v2, v3, v4, v5, v6⟩ := hv
  rw [hyeq]
  set y := writeDigits (setRes h c) (getRes h) ds with hydef
  have yres : getRes y = c := by rw [w1, getRes_setRes h c (by omega)]
  -- digits of y
  have ylow : ∀ r, 1 ≤ r → r ≤ getRes h → getDigit y r = getDigit h r := by
    intro r a b; rw [w6 r a (by omega) (Or.inl b), hsr r a (by omega)]
  have yhigh : ∀ r, c < r → r ≤ 15 → getDigit y r = getDigit h r := by
    intro r a b; rw [w6 r (by omega) b (Or.inr (by omega)), hsr r (by omega) b]
  have ymid : ∀ r, getRes h < r → r ≤ c → ∃ hj : r - getRes h - 1 < ds.length, getDigit y r = ds[r - getRes h - 1] := by
    intro r a b
    have hj : r - getRes h - 1 < ds.length := by omega
    refine ⟨hj, ?_⟩
    have := digitsBetween_get y (getRes h) ds.length (r - getRes h - 1) (by rw [digitsBetween_length]; exact hj)
    rw [show getRes h + 1 + (r - getRes h - 1) = r by omega] at this
    rw [← this]
    simp only [hbetween]
  refine ⟨by rw [w5, s5, v1], by rw [w3, s3, v2], by rw [w4, s4, v3], by rw [w2, s2]; exact v4, ?_, ?_⟩
  · intro r a b
    rw [yres]
    by_cases e1 : r ≤ getRes h
    · rw [if_pos (by omega), ylow r a e1]
      have := v5 r a b; rw [if_pos e1] at this; exact this
    · by_cases e2 : r ≤ c
      · rw [if_pos e2]
        obtain ⟨hj, e⟩ := ymid r (by omega) e2
        rw [e]; exact hdigs _ (List.getElem_mem _)
      · rw [if_neg e2, yhigh r (by omega) b]
        have := v5 r a b; rw [if_neg e1] at this; exact this
  · rw [w2, s2, yres]
    intro hpent r a b hd1
    by_cases e1 : r ≤ getRes h
    · rw [ylow r a e1] at hd1
      obtain ⟨r', a1, a2, a3⟩ := v6 hpent r a e1 hd1
      exact ⟨r', a1, a2, by rw [ylow r' a1 (by omega)]; exact a3⟩
    · obtain ⟨hj, e⟩ := ymid r (by omega) b
      rw [e] at hd1
      by_cases hP : isPentagon h = true
      · obtain ⟨j, hjlt, hne⟩ := pentDigits_first ds (hpentD hP) _ hj hd1
        refine ⟨getRes h + 1 + j, by omega, by omega, ?_⟩
        obtain ⟨hj', e'⟩ := ymid (getRes h + 1 + j) (by omega) (by omega)
        rw [e']
        have : getRes h + 1 + j - getRes h - 1 = j := by omega
        simp only [this]
        exact hne
      · -- h is below a pentagon base cell but is not a pentagon: one of its own digits is non-zero
        have hnz : ∃ r', 1 ≤ r' ∧ r' ≤ getRes h ∧ getDigit h r' ≠ 0 := by
          by_contra hc
          apply hP
          rw [isPentagon_iff]
          refine ⟨hpent, fun r' a1 a2 => ?_⟩
          by_contra hx
          exact hc ⟨r', a1, a2, hx⟩
        obtain ⟨r', a1, a2, a3⟩ := hnz
        exact ⟨r', a1, by omega, by rw [ylow r' a1 a2]; exact a3⟩

end H3.Valid
