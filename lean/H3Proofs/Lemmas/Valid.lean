/-
Bridge between the bit-level layout predicate of C01 (`layoutSpec`, equal to the generated
`isValidCell` on all 2^64 values) and a Nat-level validity predicate `ValidN` phrased with the
accessors used by the hierarchy lemmas.
-/
import H3Proofs.Props.C01
import H3Proofs.Lemmas.Hier
import Mathlib.Tactic.IntervalCases

namespace H3.Valid
open H3 H3.Gen.Bits H3.Bits H3.C01

/-- Nat-level statement of the documented layout -/
def ValidN (h : BitVec 64) : Prop :=
  getHighBit h = 0 ∧ getMode h = 1 ∧ getReserved h = 0 ∧ getBaseCell h < 122 ∧
  (∀ r, 1 ≤ r → r ≤ 15 → if r ≤ getRes h then getDigit h r < 7 else getDigit h r = 7) ∧
  (isBaseCellPentagon (getBaseCell h) = true → ∀ r, 1 ≤ r → r ≤ getRes h → getDigit h r = 1 →
      ∃ r', 1 ≤ r' ∧ r' < r ∧ getDigit h r' ≠ 0)

/-! ### field bridges (bit level, all 2^64 values) -/

theorem resF_eq (h : BitVec 64) : resF h = BitVec.setWidth 64 (m_get_resolution h) := by
  simp only [resF, m_get_resolution]; bv_decide
theorem bcF_eq (h : BitVec 64) : bcF h = BitVec.setWidth 64 (m_get_base_cell h) := by
  simp only [bcF, m_get_base_cell]; bv_decide
theorem high_eq (h : BitVec 64) : (h >>> 63 == 0#64) = (m_get_high_bit h == 0#32) := by
  simp only [m_get_high_bit]; bv_decide
theorem mode_eq (h : BitVec 64) : ((h >>> 59) &&& 15#64 == 1#64) = (m_get_mode h == 1#32) := by
  simp only [m_get_mode]; bv_decide
theorem rsv_eq (h : BitVec 64) : ((h >>> 56) &&& 7#64 == 0#64) = (m_get_reserved h == 0#32) := by
  simp only [m_get_reserved]; bv_decide

theorem digit_eq (h : BitVec 64) (r : Nat) (h1 : 1 ≤ r) (h15 : r ≤ 15) :
    digit h r = BitVec.setWidth 64 (m_get_digit h (BitVec.ofNat 32 r)) := by
  interval_cases r <;> (simp only [digit, m_get_digit, Nat.reduceSub, Nat.reduceMul]; bv_decide)

theorem resF_toNat (h : BitVec 64) : (resF h).toNat = getRes h := by
  rw [resF_eq]; simp [getRes]; have := (m_get_resolution h).isLt; omega
theorem bcF_toNat (h : BitVec 64) : (bcF h).toNat = getBaseCell h := by
  rw [bcF_eq]; simp [getBaseCell]; have := (m_get_base_cell h).isLt; omega
theorem digit_toNat (h : BitVec 64) (r : Nat) (h1 : 1 ≤ r) (h15 : r ≤ 15) : (digit h r).toNat = getDigit h r := by
  rw [digit_eq h r h1 h15]; simp [getDigit]
  have := (m_get_digit h (BitVec.ofNat 32 r)).isLt; omega

theorem ofNat64_toNat (r : Nat) (h : r ≤ 16) : (BitVec.ofNat 64 r).toNat = r := by
  simp [BitVec.toNat_ofNat]; omega

theorem bv_eq_iff_toNat (a : BitVec 64) (n : Nat) (hn : n < 2 ^ 64) : (a == BitVec.ofNat 64 n) = (a.toNat == n) := by
  by_cases h : a = BitVec.ofNat 64 n
  · subst h; simp [BitVec.toNat_ofNat]; omega
  · have : a.toNat ≠ n := by
      intro e; apply h; apply BitVec.eq_of_toNat_eq; simp [BitVec.toNat_ofNat, e]; omega
    simp [h, this]

theorem okDigit_iff (h : BitVec 64) (r : Nat) (h1 : 1 ≤ r) (h15 : r ≤ 15) :
    okDigit h r = true ↔ (if r ≤ getRes h then getDigit h r < 7 else getDigit h r = 7) := by
  unfold okDigit
  have hd := digit_toNat h r h1 h15
  have hlt := getDigit_lt h r
  have e7 : (digit h r == 7#64) = (getDigit h r == 7) := by
    rw [show (7#64 : BitVec 64) = BitVec.ofNat 64 7 from rfl, bv_eq_iff_toNat _ _ (by omega), hd]
  have hule : BitVec.ule (BitVec.ofNat 64 r) (resF h) = decide (r ≤ getRes h) := by
    rw [BitVec.ule, ofNat64_toNat r (by omega), resF_toNat]
  rw [hule]
  by_cases hr : r ≤ getRes h
  · simp only [hr, decide_true, if_true, bne, e7]
    simp; omega
  · simp only [hr, decide_false, if_false, e7]
    simp

theorem zerosUpTo_iff (h : BitVec 64) : ∀ n, n ≤ 15 →
    (zerosUpTo h n = true ↔ ∀ r, 1 ≤ r → r ≤ n → getDigit h r = 0) := by
  intro n
  induction n with
  | zero => intro _; simp [zerosUpTo]; intro r h1 h2; omega
  | succ n ih =>
    intro hn
    have e0 : (digit h (n + 1) == 0#64) = (getDigit h (n + 1) == 0) := by
      rw [show (0#64 : BitVec 64) = BitVec.ofNat 64 0 from rfl, bv_eq_iff_toNat _ _ (by omega), digit_toNat h (n + 1) (by omega) hn]
    simp only [zerosUpTo, Bool.and_eq_true, ih (by omega), e0, beq_iff_eq]
    constructor
    · rintro ⟨a, b⟩ r h1 h2
      by_cases e : r = n + 1
      · subst e; exact b
      · exact a r h1 (by omega)
    · intro a
      exact ⟨fun r h1 h2 => a r h1 (by omega), a (n + 1) (by omega) (by omega)⟩

theorem firstNonzeroIs1At_iff (h : BitVec 64) (i : Nat) (hi : i < 15) :
    firstNonzeroIs1At h i = true ↔
      (i + 1 ≤ getRes h ∧ getDigit h (i + 1) = 1 ∧ ∀ r, 1 ≤ r → r ≤ i → getDigit h r = 0) := by
  unfold firstNonzeroIs1At
  have e1 : (digit h (i + 1) == 1#64) = (getDigit h (i + 1) == 1) := by
    rw [show (1#64 : BitVec 64) = BitVec.ofNat 64 1 from rfl, bv_eq_iff_toNat _ _ (by omega), digit_toNat h (i + 1) (by omega) (by omega)]
  have hule : BitVec.ule (BitVec.ofNat 64 (i + 1)) (resF h) = decide (i + 1 ≤ getRes h) := by
    rw [BitVec.ule, ofNat64_toNat (i + 1) (by omega), resF_toNat]
  simp only [Bool.and_eq_true, hule, e1, zerosUpTo_iff h i (by omega), decide_eq_true_eq, beq_iff_eq, and_assoc]

theorem pentBC_table : ∀ b : Fin 128, pentBC (BitVec.ofNat 64 b.val) = isBaseCellPentagon b.val := by decide +kernel

theorem pentBC_iff (h : BitVec 64) : pentBC (bcF h) = isBaseCellPentagon (getBaseCell h) := by
  have hb := getBaseCell_lt h
  have : bcF h = BitVec.ofNat 64 (getBaseCell h) := by
    apply BitVec.eq_of_toNat_eq
    rw [bcF_toNat]; simp [BitVec.toNat_ofNat]; omega
  rw [this]
  exact pentBC_table ⟨getBaseCell h, hb⟩

/-- **the documented layout, Nat level** -/
theorem layoutSpec_iff (h : BitVec 64) : layoutSpec h = true ↔ ValidN h := by
  unfold layoutSpec ValidN
  have hbc : BitVec.ult (bcF h) 122#64 = decide (getBaseCell h < 122) := by
    rw [BitVec.ult, bcF_toNat]; rfl
  have hhigh : (m_get_high_bit h == 0#32) = (getHighBit h == 0) := by
    unfold getHighBit
    by_cases e : m_get_high_bit h = 0#32
    · simp [e]
    · have : (m_get_high_bit h).toNat ≠ 0 := fun c => e (BitVec.eq_of_toNat_eq (by simpa using c))
      simp [e, this]
  have hmode : (m_get_mode h == 1#32) = (getMode h == 1) := by
    unfold getMode
    by_cases e : m_get_mode h = 1#32
    · simp [e]
    · have : (m_get_mode h).toNat ≠ 1 := fun c => e (BitVec.eq_of_toNat_eq (by simpa using c))
      simp [e, this]
  have hrsv : (m_get_reserved h == 0#32) = (getReserved h == 0) := by
    unfold getReserved
    by_cases e : m_get_reserved h = 0#32
    · simp [e]
    · have : (m_get_reserved h).toNat ≠ 0 := fun c => e (BitVec.eq_of_toNat_eq (by simpa using c))
      simp [e, this]
  rw [high_eq, mode_eq, rsv_eq, hbc, hhigh, hmode, hrsv, pentBC_iff]
  simp only [Bool.and_eq_true, beq_iff_eq, decide_eq_true_eq, List.all_eq_true, List.mem_range,
    Bool.or_eq_true, Bool.not_eq_true', List.any_eq_false]
  constructor
  · rintro ⟨⟨⟨⟨⟨a, b⟩, c⟩, d⟩, e⟩, f⟩
    refine ⟨a, b, c, d, ?_, ?_⟩
    · intro r h1 h15
      have := e (r - 1) (by omega)
      rw [show r - 1 + 1 = r by omega] at this
      exact (okDigit_iff h r h1 h15).mp this
    · intro hp r h1 hr hd1
      rcases f with f | f
      · rw [hp] at f; cases f
      · have hr15 : r ≤ 15 := by have := getRes_lt h; omega
        have hne := f (r - 1) (by omega)
        rw [Bool.not_eq_true] at hne
        have hiff := firstNonzeroIs1At_iff h (r - 1) (by omega)
        rw [show r - 1 + 1 = r by omega] at hiff
        by_contra hcon
        have hall : ∀ r', 1 ≤ r' → r' ≤ r - 1 → getDigit h r' = 0 := by
          intro r' h1' h2'
          by_contra hx
          exact hcon ⟨r', h1', by omega, hx⟩
        have := hiff.mpr ⟨hr, hd1, hall⟩
        rw [this] at hne; cases hne
  · rintro ⟨a, b, c, d, e, f⟩
    refine ⟨⟨⟨⟨⟨a, b⟩, c⟩, d⟩, ?_⟩, ?_⟩
    · intro i hi
      exact (okDigit_iff h (i + 1) (by omega) (by omega)).mpr (e (i + 1) (by omega) (by omega))
    · by_cases hp : isBaseCellPentagon (getBaseCell h) = true
      · right
        intro i hi
        rw [Bool.not_eq_true]
        by_contra hcon
        rw [Bool.not_eq_false] at hcon
        obtain ⟨h1, h2, h3⟩ := (firstNonzeroIs1At_iff h i hi).mp hcon
        obtain ⟨r', a1, a2, a3⟩ := f hp (i + 1) (by omega) h1 h2
        exact a3 (h3 r' a1 (by omega))
      · left; simpa using hp

end H3.Valid
