/- h3model: line-protocol driver of the Lean model (one op per line on stdin, one answer per line) -/
import H3Model.OpsCore
import H3Model.OpsTrav
import H3Model.OpsPoly

open H3 H3.Ops

def runLine (line : String) : String :=
  let toks := (line.trimAscii.toString.splitOn " ").filter (· ≠ "")
  match toks with
  | [] => "bad-op"
  | op :: args =>
    match opsCore op args with
    | some r => r
    | none =>
      match opsTrav op args with
      | some r => r
      | none =>
        match opsPoly op args with
        | some r => r
        | none => "skip"

partial def loop (hin : IO.FS.Stream) (hout : IO.FS.Stream) : IO Unit := do
  let line ← hin.getLine
  if line.isEmpty then return ()
  hout.putStrLn (runLine line)
  loop hin hout

def main : IO Unit := do
  let hin ← IO.getStdin
  let hout ← IO.getStdout
  loop hin hout
