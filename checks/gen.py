"""Input generators shared by the property checks. Every random choice comes from the
`random.Random` passed in (seeded from VERIF_SEED)."""

PENT = [4, 14, 24, 38, 49, 58, 63, 72, 83, 97, 107, 117]
PENT_SET = set(PENT)
POLAR_PENT = [4, 117]


def mkcell(res, bc, digits, mode=1, rsv=0, high=0):
    h = (high << 63) | (mode << 59) | (rsv << 56) | (res << 52) | (bc << 45)
    for r in range(1, 16):
        d = digits[r - 1] if r <= res and r - 1 < len(digits) else 7
        h |= d << (3 * (15 - r))
    return h


def hx(h):
    return format(h & ((1 << 64) - 1), "x")


def fields(h):
    res = (h >> 52) & 15
    bc = (h >> 45) & 127
    ds = [(h >> (3 * (15 - r))) & 7 for r in range(1, 16)]
    return res, bc, ds


def layout_spec(h):
    """python copy of the documented layout (independent oracle for the C01 search)"""
    if h >> 63:
        return False
    if (h >> 59) & 15 != 1 or (h >> 56) & 7 != 0:
        return False
    res, bc, ds = fields(h)
    if bc >= 122:
        return False
    for r in range(1, 16):
        d = ds[r - 1]
        if r <= res and d == 7:
            return False
        if r > res and d != 7:
            return False
    if bc in PENT_SET:
        for r in range(1, res + 1):
            if ds[r - 1] != 0:
                if ds[r - 1] == 1:
                    return False
                break
    return True


def is_pentagon(h):
    res, bc, ds = fields(h)
    return bc in PENT_SET and all(d == 0 for d in ds[:res])


def fix_pent(bc, ds):
    """make digit string valid under a pentagon base cell (first non-zero digit != 1)"""
    if bc in PENT_SET:
        for i, d in enumerate(ds):
            if d != 0:
                if d == 1:
                    ds[i] = 2
                break
    return ds


def pick_bc(rng):
    k = rng.random()
    if k < 0.34:
        return rng.choice(PENT)
    return rng.randrange(122)


def rand_digits(rng, res, style=None):
    style = style if style is not None else rng.randrange(6)
    if style == 0:
        return [rng.randrange(7) for _ in range(res)]
    if style == 1:   # centre chain then random
        z = rng.randrange(res + 1)
        return [0] * z + [rng.randrange(7) for _ in range(res - z)]
    if style == 2:   # all equal
        return [rng.randrange(7)] * res
    if style == 3:   # leading digit at each position then zeros
        z = rng.randrange(res + 1)
        ds = [0] * res
        if z < res:
            ds[z] = rng.randrange(1, 7)
        return ds
    if style == 4:   # all 6 / all-but-one
        ds = [6] * res
        if res:
            ds[rng.randrange(res)] = rng.randrange(7)
        return ds
    z = rng.randrange(res + 1)
    return [rng.randrange(7) for _ in range(z)] + [0] * (res - z)


def rand_cell(rng, res=None, bc=None):
    res = rng.randrange(16) if res is None else res
    bc = pick_bc(rng) if bc is None else bc
    ds = fix_pent(bc, rand_digits(rng, res))
    return mkcell(res, bc, ds)


def malformed(rng):
    k = rng.randrange(9)
    if k == 0:
        return rng.getrandbits(64)
    h = rand_cell(rng)
    if k == 1:
        for _ in range(rng.randrange(1, 4)):
            h ^= 1 << rng.randrange(64)
        return h
    res, bc, ds = fields(h)
    if k == 2:   # wrong mode / reserved / high
        return mkcell(res, bc, ds, mode=rng.randrange(16), rsv=rng.choice([0, 0, 1, 7, rng.randrange(8)]),
                      high=rng.choice([0, 0, 1]))
    if k == 3 and res > 0:   # 7 planted inside the resolution
        ds = ds[:]
        ds[rng.randrange(res)] = 7
        return mkcell(res, bc, ds)
    if k == 4 and res < 15:   # non-7 after the resolution
        ds = ds[:res] + [7] * (15 - res)
        ds[rng.randrange(res, 15)] = rng.randrange(7)
        return mkcell(15, bc, ds) & ~(15 << 52) | (res << 52)
    if k == 5:   # deleted subsequence
        bc = rng.choice(PENT)
        res = max(res, 1)
        z = rng.randrange(res)
        ds = [0] * z + [1] + [rng.randrange(7) for _ in range(res - z - 1)]
        return mkcell(res, bc, ds)
    if k == 6:   # base cell out of range
        return mkcell(res, rng.randrange(122, 128), ds)
    if k == 7:
        return rng.choice([0, (1 << 64) - 1, 1 << 63, 0x7fffffffffffffff, 0x0800000000000000,
                           0x08001fffffffffff, mkcell(0, 0, [])])
    return h


EXTREME_INTS = [-2147483648, -2147483647, -16, -2, -1, 0, 1, 2, 14, 15, 16, 17, 31, 255, 65536,
                2147483646, 2147483647,
                # in range modulo a power of two (narrowing conversions): 2^8, 2^16, 2^24 plus a small value
                256, 257, 258, 261, 265, 271, 512 + 3, 65536 + 5, 65536 + 15, 16777216 + 2, 16777216 + 9,
                -256 + 3, -256 + 15, -65536 + 1, -65536 + 9, -16777216 + 4]


def structured_valid_cells():
    """every resolution x {all digits d, first non-zero digit at each position with each value}
    x pentagon / hexagon base cells (deterministic)"""
    out = []
    for res in range(16):
        for bc in (0, 4, 14, 20, 58, 117, 121):
            for d in range(7):
                ds = fix_pent(bc, [d] * res)
                out.append(mkcell(res, bc, ds))
            for pos in range(res):
                for d in range(1, 7):
                    ds = [0] * res
                    ds[pos] = d
                    if bc in PENT_SET and d == 1:
                        continue
                    out.append(mkcell(res, bc, ds))
    return out


# ---------------------------------------------------------------- hierarchy helpers (python oracle)

def parent(h, pres):
    res, bc, ds = fields(h)
    return mkcell(pres, bc, ds[:pres])


def children(h, cres):
    """python enumeration of the children of a *valid* cell (independent oracle)"""
    res, bc, ds = fields(h)
    ds = ds[:res]
    out = []

    def rec(prefix):
        if len(prefix) == cres:
            out.append(mkcell(cres, bc, prefix))
            return
        pent = bc in PENT_SET and all(d == 0 for d in prefix)
        for d in range(7):
            if pent and d == 1:
                continue
            rec(prefix + [d])
    rec(list(ds))
    return out


def children_size(h, cres):
    res = (h >> 52) & 15
    n = cres - res
    return 1 + 5 * (7 ** n - 1) // 6 if is_pentagon(h) else 7 ** n


def rand_set(rng, res=None, maxsize=3000):
    """a set of distinct valid cells of one resolution: subtrees, partial families, pentagon
    families, isolated cells"""
    res = rng.randrange(1, 16) if res is None else res
    cells = set()
    for _ in range(rng.randrange(1, 6)):
        k = rng.randrange(5)
        depth = rng.randrange(0, min(res, 4) + 1)
        anc = rand_cell(rng, res=res - depth, bc=(rng.choice(PENT) if rng.random() < 0.4 else None))
        if k == 4:   # centre chain under a pentagon
            anc = mkcell(res - depth, rng.choice(PENT), [0] * (res - depth))
        kids = children(anc, res)
        if k == 0:
            cells.update(kids)
        elif k == 1:   # remove 1-3
            rng.shuffle(kids)
            cells.update(kids[rng.randrange(1, 4):])
        elif k == 2:   # partial
            cells.update(kids[:rng.randrange(1, len(kids) + 1)])
        elif k == 3:
            cells.add(rng.choice(kids))
        else:
            cells.update(kids)
        if len(cells) > maxsize:
            break
    cells = list(cells)[:maxsize]
    rng.shuffle(cells)
    return cells


# ---------------------------------------------------------------- polygons (lat/lng in radians)
import math as _m


def _f2bits(x):
    import struct
    return struct.pack(">d", x).hex()


def poly_str(loops):
    """loops: list of lists of (lat,lng); loop 0 = outer"""
    s = [str(len(loops))]
    for lp in loops:
        s.append(str(len(lp)))
        for la, ln in lp:
            s.append(_f2bits(la)); s.append(_f2bits(ln))
    return " ".join(s)


def ngon(lat, lng, radius, n, rng=None, jitter=0.0, phase=0.0, squash=1.0):
    pts = []
    for i in range(n):
        ang = phase + 2 * _m.pi * i / n
        r = radius * (1 + (rng.uniform(-jitter, jitter) if rng else 0))
        la = lat + r * _m.sin(ang) * squash
        ln = lng + r * _m.cos(ang) / max(0.2, _m.cos(lat))
        la = max(-1.45, min(1.45, la))
        pts.append((la, ln))
    return pts


def norm_lng(x):
    while x > _m.pi:
        x -= 2 * _m.pi
    while x < -_m.pi:
        x += 2 * _m.pi
    return x


def rand_polygon(rng, where=None, kind=None):
    """well-formed polygon: simple outer loop, optional holes inside, edges < 180 deg, no pole inside.
    returns (loops, (lat,lng,radius))"""
    kind = kind if kind is not None else rng.choice(["convex", "concave", "needle", "holes", "anti", "tiny"])
    lat = rng.uniform(-1.2, 1.2) if where is None else where[0]
    lng = rng.uniform(-3.1, 3.1) if where is None else where[1]
    radius = rng.choice([0.002, 0.01, 0.03, 0.08])
    if kind in ("anti", "anti-needle", "anti-holes"):
        lng = _m.pi - rng.uniform(0, radius * 0.8) * rng.choice([-1, 1])
    n = rng.randrange(3, 9)
    if kind == "concave":
        outer = ngon(lat, lng, radius, 2 * n, None, phase=rng.uniform(0, 1))
        outer = [(la if i % 2 == 0 else lat + (la - lat) * 0.45, ln if i % 2 == 0 else lng + (ln - lng) * 0.45)
                 for i, (la, ln) in enumerate(outer)]
    elif kind == "anti-needle":
        outer = ngon(lat, lng, radius, 4, None, phase=rng.uniform(-0.3, 0.3), squash=0.03)
    elif kind == "needle":
        outer = ngon(lat, lng, radius, 4, None, phase=rng.uniform(0, 3), squash=0.02)
    elif kind == "tiny":
        radius = 1e-5
        outer = ngon(lat, lng, radius, n, rng, jitter=0.2)
    else:
        outer = ngon(lat, lng, radius, n, rng, jitter=0.25, phase=rng.uniform(0, 1))
    loops = [outer]
    if kind in ("holes", "anti-holes"):
        nh = rng.randrange(1, 4)
        for h in range(nh):
            ang = 2 * _m.pi * h / nh
            loops.append(ngon(lat + 0.4 * radius * _m.sin(ang), lng + 0.4 * radius * _m.cos(ang) / max(0.2, _m.cos(lat)),
                              radius * 0.12, rng.randrange(3, 6), None))
    loops = [[(la, norm_lng(ln)) for la, ln in lp] for lp in loops]
    return loops, (lat, lng, radius)
