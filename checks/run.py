#!/usr/bin/env python3
"""Entry point of every check.

  python3 checks/run.py --setup
  python3 checks/run.py --property C01 --tier quick|thorough
  python3 checks/run.py --replay evidence/replays/C01-1.json

For one property a run does, in this order (DESIGN.md §2.5):
  1. regenerate lean/H3Model/Generated/*.lean from /repo's working tree (table dumper,
     c2lean translator, globals scan) and rebuild the C harness from the same tree;
  2. `lake build` the property's proof modules and the model executable;
  3. audit: `#print axioms` of every property theorem, grep for sorry/admit/axiom/...;
  4. correspondence: run the same op lines through the real library (ASan+UBSan build,
     assertions on) and through the Lean model executable and diff the answers;
  5. C-side evaluator of the property statement on the real library's outputs;
  6. write evidence/<id>.json; exit 0, or print VIOLATION lines and exit 1.
If step 2/3/4 breaks, the evaluator searches for a concrete failing input (the replay);
if none is found the VIOLATION line ends with `no-failing-input-found`.
"""
import argparse, fcntl, glob, hashlib, importlib, json, os, random, re, shutil, subprocess, sys, time

HERE = os.path.dirname(os.path.abspath(__file__))
VERIF = os.path.dirname(HERE)
sys.path.insert(0, HERE)
import h3build  # noqa: E402

LEAN = os.path.join(VERIF, "lean")
GEN = os.path.join(LEAN, "H3Model", "Generated")
EVID = os.path.join(VERIF, "evidence")
REPLAYS = os.path.join(EVID, "replays")
BUILD = os.path.join(VERIF, "build")
ALLOWED_AXIOMS = {"propext", "Classical.choice", "Quot.sound"}

C2LEAN_FNS = ["m_get_high_bit", "m_get_mode", "m_get_reserved", "m_get_resolution",
              "m_get_base_cell", "m_get_digit", "m_set_high_bit", "m_set_mode",
              "m_set_reserved", "m_set_resolution", "m_set_base_cell", "m_set_digit",
              "m_reserved_mask_negative", "m_h3_init", "isValidCell", "_zeroIndexDigits",
              # loops with a bounded trip count, unrolled by the translator (the `_defined` companions prove that the
              # unrolling suffices for every input)
              "_h3LeadingNonZeroDigit", "_rotate60ccw", "_rotate60cw", "_h3Rotate60ccw", "_h3Rotate60cw",
              # scalar out parameters (extra results `<fn>_out_<param>`), conditionals inside loops, a column of the
              # file-scope table baseCellData, while loops
              "cellToParent", "cellToCenterChild", "isPentagon", "_h3RotatePent60ccw", "_h3RotatePent60cw",
              "cellToChildrenSize", "makeDirectChild", "setH3Index",
              # calls that pass `&local` for a callee's out parameter; a local declared without initialiser becomes an
              # extra, universally quantified parameter `u_<name>` of the translation
              "getDirectedEdgeOrigin", "isValidDirectedEdge", "maxFaceCount",
              # an out pointer handed on to a callee in a return expression, file-scope const scalars, assert expansions
              # (NEVER / ALWAYS: the failing branch is "undefined", so `_defined` theorems prove it unreachable)
              "validateChildPos", "getNumCells", "maxGridDiskSize",
              # `break`, branches that return on some paths only (the continuation is duplicated), callees with
              # uninitialised locals (their `u_` parameters are handed up)
              "cellToChildPos",
              # the small public getters
              "getResolution", "getBaseCellNumber", "isResClassIII", "pentagonCount", "res0CellCount"]
C2LEAN_UNROLL = {"_h3LeadingNonZeroDigit": 16, "_h3Rotate60ccw": 16, "_h3Rotate60cw": 16, "cellToParent": 16,
                 "_h3RotatePent60ccw": 16, "_h3RotatePent60cw": 16, "_ipow": 6, "setH3Index": 16, "cellToChildPos": 16}
C2LEAN_FILES = ["h3Index.c", "coordijk.c", "baseCells.c", "mathExtensions.c", "directedEdge.c", "latLng.c", "algos.c"]


def log(*a):
    print(*a, file=sys.stderr, flush=True)


class Lock:
    def __enter__(self):
        os.makedirs(BUILD, exist_ok=True)
        self.f = open(os.path.join(BUILD, ".lock"), "w")
        fcntl.flock(self.f, fcntl.LOCK_EX)
        return self

    def __exit__(self, *a):
        fcntl.flock(self.f, fcntl.LOCK_UN)
        self.f.close()


def write_if_changed(path, text):
    if os.path.exists(path) and open(path).read() == text:
        return False
    os.makedirs(os.path.dirname(path), exist_ok=True)
    open(path, "w").write(text)
    return True


class Prep:
    """result of the prepare phase"""
    def __init__(self):
        self.translator_error = None   # str
        self.harness_error = None
        self.drv = None                # path of h3drv (asan)
        self.drv_fast = None
        self.bdir = None
        self.lake_ok = {}              # target -> bool
        self.lake_log = {}
        self.model = None              # path of h3model exe if built


def regenerate(prep):
    """tables + bit functions + globals scan from the current working tree"""
    H = h3build.HARNESS
    try:
        exe, bdir = h3build.build("fast", main_src=os.path.join(H, "dump_tables.c"),
                                  exe_name="dump_tables",
                                  extra_tus=[os.path.join(H, "valloc.c")])
    except h3build.BuildError as e:
        prep.translator_error = "table dumper does not build: " + str(e)[:2000]
        return
    r = subprocess.run([exe], capture_output=True, text=True)
    if r.returncode != 0:
        prep.translator_error = "table dumper failed: " + r.stderr[:1000]
        return
    write_if_changed(os.path.join(GEN, "Tables.lean"), r.stdout)
    inc = os.path.join(bdir, "include")
    tmp = os.path.join(BUILD, "BitFns.lean.tmp")
    cmd = [sys.executable, os.path.join(VERIF, "tools", "c2lean.py"), "--out", tmp,
           "--file", os.path.join(H, "macros_tu.c"),
           ]
    for f in C2LEAN_FILES:
        cmd += ["--file", os.path.join(h3build.LIBSRC, f)]
    for f in C2LEAN_FNS:
        cmd += ["--fn", f]
    for f, n_ in C2LEAN_UNROLL.items():
        cmd += ["--unroll", f"{f}={n_}"]
    cmd += ["--", "-I", inc, "-I", h3build.LIBINC, "-DH3_PREFIX="]
    r = subprocess.run(cmd, capture_output=True, text=True)
    if r.returncode != 0:
        prep.translator_error = "c2lean: " + (r.stderr or r.stdout)[:2000]
        return
    write_if_changed(os.path.join(GEN, "BitFns.lean"), open(tmp).read())
    # globals scan (C18)
    gs = os.path.join(VERIF, "tools", "globals_scan.py")
    if os.path.exists(gs):
        tmpg = os.path.join(BUILD, "Globals.lean.tmp")
        r = subprocess.run([sys.executable, gs, "--out", tmpg, "--inc", inc], capture_output=True, text=True)
        if r.returncode != 0:
            prep.translator_error = "globals_scan: " + (r.stderr or r.stdout)[:2000]
            return
        write_if_changed(os.path.join(GEN, "Globals.lean"), open(tmpg).read())


def build_harness(prep, flavors=("asan",)):
    H = h3build.HARNESS
    tus = [os.path.join(H, "valloc.c")] + sorted(glob.glob(os.path.join(H, "ops_*.c")))
    keep = []
    try:
        for fl in flavors:
            exe, bdir = h3build.build(fl, main_src=os.path.join(H, "h3drv.c"), exe_name="h3drv",
                                      extra_tus=tus)
            keep.append(os.path.basename(bdir))
            if fl == "asan":
                prep.drv, prep.bdir = exe, bdir
            elif fl == "fast":
                prep.drv_fast = exe
        # the dumper lives in the 'fast' dir
        keep.append("fast-" + h3build.tree_hash(h3build.FLAVORS["fast"]))
        for fl in ("tsan", "rel"):
            keep.append(fl + "-" + h3build.tree_hash(h3build.FLAVORS[fl]))
        h3build.clean_old(set(keep))
    except h3build.BuildError as e:
        prep.harness_error = str(e)[:3000]


def lake_build(prep, targets):
    """build each target separately so that one broken proof module does not hide the others"""
    for t in targets:
        if t in prep.lake_ok:
            continue
        r = subprocess.run(["lake", "build", t], cwd=LEAN, capture_output=True, text=True)
        prep.lake_ok[t] = (r.returncode == 0)
        prep.lake_log[t] = (r.stdout + r.stderr)[-6000:]
    exe = os.path.join(LEAN, ".lake", "build", "bin", "h3model")
    if prep.lake_ok.get("h3model") and os.path.exists(exe):
        prep.model = exe


def failing_theorems(logtext):
    """map `error: File.lean:LINE:COL` to the enclosing theorem name"""
    out = []
    for m in re.finditer(r"error: ([\w/\.]+\.lean):(\d+):(\d+):? ?(.*)", logtext):
        path, line = os.path.join(LEAN, m.group(1)), int(m.group(2))
        name = None
        try:
            lines = open(path).read().split("\n")
            for i in range(min(line, len(lines)) - 1, -1, -1):
                mm = re.match(r"\s*(?:private |protected )?(?:theorem|lemma|def|example|instance)\s+([\w\.']+)?", lines[i])
                if mm:
                    name = mm.group(1) or f"example@{i+1}"
                    break
        except OSError:
            pass
        out.append({"file": m.group(1), "line": line, "theorem": name, "message": m.group(4)[:300]})
    return out


def audit_axioms(theorems, imports):
    """#print axioms for each theorem; returns {thm: [axioms]} or raises"""
    os.makedirs(BUILD, exist_ok=True)
    src = "".join(f"import {i}\n" for i in imports)
    for t in theorems:
        src += f"#print axioms {t}\n"
    p = os.path.join(BUILD, f"audit_{os.getpid()}.lean")
    open(p, "w").write(src)
    r = subprocess.run(["lake", "env", "lean", p], cwd=LEAN, capture_output=True, text=True)
    os.unlink(p)
    txt = r.stdout + r.stderr
    res = {}
    # output: 'thm' depends on axioms: [a, b]   |  'thm' does not depend on any axioms
    for m in re.finditer(r"^'([^\n]+?)' depends on axioms: \[([^\]]*)\]", txt, re.M):
        res[m.group(1)] = [a.strip() for a in m.group(2).replace("\n", " ").split(",") if a.strip()]
    for m in re.finditer(r"^'([^\n]+?)' does not depend on any axioms", txt, re.M):
        res[m.group(1)] = []
    missing = [t for t in theorems if t not in res]
    return res, missing, txt[-2000:]


def grep_forbidden(modules):
    """sorry/admit/axiom/native_decide/... outside comments in the given lean files"""
    pat = re.compile(r"\b(sorry|admit|native_decide|implemented_by|unsafe)\b|^\s*axiom\s|maxHeartbeats 0")
    hits = []
    for path in modules:
        try:
            txt = open(path).read()
        except OSError:
            continue
        # strip block comments and line comments
        txt2 = re.sub(r"/-.*?-/", lambda m: "\n" * m.group(0).count("\n"), txt, flags=re.S)
        for i, l in enumerate(txt2.split("\n")):
            l = l.split("--")[0]
            if pat.search(l):
                hits.append(f"{os.path.relpath(path, LEAN)}:{i+1}: {l.strip()[:120]}")
    return hits


def theorems_of(modules):
    """property theorems = every `theorem` of the given Props modules (qualified by namespace)"""
    out = []
    for m in modules:
        path = os.path.join(LEAN, *m.split(".")) + ".lean"
        try:
            txt = open(path).read()
        except OSError:
            continue
        txt = re.sub(r"/-.*?-/", "", txt, flags=re.S)
        ns = []
        for l in txt.split("\n"):
            mm = re.match(r"^namespace\s+(\S+)", l)
            if mm:
                ns.append(mm.group(1))
                continue
            mm = re.match(r"^end\s+(\S+)", l)
            if mm and ns and ns[-1] == mm.group(1):
                ns.pop()
                continue
            mm = re.match(r"^(?:@\[[^\]]*\]\s*)?theorem\s+([\w\.']+)", l)
            if mm:
                out.append(".".join(ns + [mm.group(1)]))
    return out


def lean_sources():
    return sorted(glob.glob(os.path.join(LEAN, "H3Model", "**", "*.lean"), recursive=True) +
                  glob.glob(os.path.join(LEAN, "H3Proofs", "**", "*.lean"), recursive=True) +
                  [os.path.join(LEAN, "Main.lean")])


# ------------------------------------------------------------------ drivers

class AbortBudget(Exception):
    pass


ABORT_BUDGET = 30      # after this many ops that killed the real library the run stops exploring (each is a replay)


class Ctx:
    def __init__(self, prep, pid, seed, tier):
        self.prep, self.pid, self.seed, self.tier = prep, pid, seed, tier
        self.workdir = os.path.join(BUILD, "work", f"{pid}-{os.getpid()}")
        os.makedirs(self.workdir, exist_ok=True)
        self.n_c = 0
        self.aborts = []
        self.in_evaluator = False

    def _run(self, exe, ops, tag, env=None):
        inp = os.path.join(self.workdir, f"{tag}.in")
        with open(inp, "w") as f:
            f.write("\n".join(ops) + "\n")
        e = dict(os.environ)
        e["ASAN_OPTIONS"] = "detect_leaks=1:abort_on_error=0:exitcode=99:allocator_may_return_null=1"
        e["UBSAN_OPTIONS"] = "print_stacktrace=1:halt_on_error=1:exitcode=98"
        if env:
            e.update(env)
        with open(inp) as fi:
            try:
                r = subprocess.run([exe], stdin=fi, capture_output=True, text=True, env=e,
                                   timeout=int(os.environ.get("VERIF_OP_TIMEOUT", "150" if self.tier == "quick" else "900")))
            except subprocess.TimeoutExpired as ex:
                class R:
                    pass
                r = R()
                r.returncode = -999
                r.stdout = (ex.stdout or b"").decode() if isinstance(ex.stdout, bytes) else (ex.stdout or "")
                r.stderr = "TIMEOUT: the driver did not finish (possible non-termination)"
        return r

    def c(self, ops, tag="c"):
        """run ops through the real library; an abort is isolated by re-running the rest"""
        out = []
        ops = list(ops)
        self.n_c += len(ops)
        start = 0
        while start < len(ops):
            # a run that does not finish (possible non-termination) costs as much as fifteen aborts: two of them end
            # the exploration
            if len(self.aborts) + 14 * sum(1 for a_ in self.aborts if "TIMEOUT" in a_["kind"]) >= ABORT_BUDGET:
                if self.in_evaluator:
                    raise AbortBudget()
                out += ["notrun"] * (len(ops) - start)
                break
            r = self._run(self.prep.drv, ops[start:], tag)
            lines = r.stdout.split("\n")
            if lines and lines[-1] == "":
                lines.pop()
            if r.returncode == 0 and len(lines) == len(ops) - start:
                out += lines
                break
            # the op after the last complete answer killed the process
            k = len(lines)
            if k > len(ops) - start:
                k = len(ops) - start
            # a partially written last line is possible only without newline; stdout is flushed per op
            out += lines[:k]
            kind = "abort"
            m = re.search(r"(AddressSanitizer: [\w-]+|runtime error: [^\n]+|Assertion [^\n]+|LeakSanitizer[^\n]*|TIMEOUT[^\n]*)", r.stderr)
            if m:
                kind = "abort " + m.group(1).replace(" ", "_")[:120]
            else:
                kind = f"abort exit={r.returncode}"
            if start + k < len(ops):
                self.aborts.append({"op": ops[start + k], "kind": kind, "stderr": r.stderr[-1500:]})
                out.append(kind)
            start = start + k + 1
            if r.returncode == 0 and k == len(ops) - (start - k - 1):
                break
        return out[:len(ops)]

    def m(self, ops, tag="m"):
        r = self._run(self.prep.model, ops, tag)
        lines = r.stdout.split("\n")
        if lines and lines[-1] == "":
            lines.pop()
        if r.returncode != 0 or len(lines) != len(ops):
            raise RuntimeError(f"model driver failed rc={r.returncode} lines={len(lines)}/{len(ops)} {r.stderr[-500:]}")
        return lines

    def cleanup(self):
        shutil.rmtree(self.workdir, ignore_errors=True)


# ------------------------------------------------------------------ known findings

def load_findings():
    p = os.path.join(VERIF, "known_findings.txt")
    out = []
    if os.path.exists(p):
        for l in open(p):
            l = l.strip()
            m = re.match(r"finding: property=(\w+) key=(\S+) (.*)", l)
            if m:
                out.append({"property": m.group(1), "key": m.group(2), "what": m.group(3)})
    return out


# ------------------------------------------------------------------ main check

def trusted_base(extra=()):
    return ["Lean 4.33.0 kernel", "axioms: propext, Classical.choice, Quot.sound (+ per-theorem "
            "bv_decide LRAT-checker axioms where listed under theorem_axioms)",
            "harness/dump_tables.c + C compiler as table parser",
            "tools/c2lean.py (clang JSON AST -> Lean BitVec; validated differentially every run); translated on this run: "
            + ", ".join(C2LEAN_FNS) + " (DESIGN.md section 2.6 says what the translator assumes about C)",
            "correspondence check (differential testing) for every hand-written model function",
            "statement of the property as transcribed in lean/H3Proofs/Props"] + list(extra)


def run_property(pid, tier, seed):
    t0 = time.time()
    mod = importlib.import_module(f"props.{pid}")
    rng = random.Random(seed * 1000003 + int(pid[1:]))
    os.makedirs(REPLAYS, exist_ok=True)
    prep = Prep()
    broken = []     # obligations / correspondence streams that no longer check
    with Lock():
        regenerate(prep)
        flavors = getattr(mod, "FLAVORS", ("asan",))
        build_harness(prep, flavors)
        targets = ["h3model"] + list(mod.MODULES)
        if tier == "thorough":
            targets += list(getattr(mod, "MODULES_THOROUGH", []))
        lake_build(prep, targets)
        if prep.translator_error:
            broken.append({"kind": "translator", "name": "c2lean/dump_tables", "detail": prep.translator_error})
        if mod.THEOREMS == "auto":
            obligations = theorems_of(mod.MODULES)
        else:
            obligations = list(mod.THEOREMS)
        if tier == "thorough":
            thm_t = getattr(mod, "THEOREMS_THOROUGH", [])
            obligations += theorems_of(getattr(mod, "MODULES_THOROUGH", [])) if thm_t == "auto" else list(thm_t)
        discharged = []
        theorem_axioms = {}
        mods_ok = [m for m in targets[1:] if prep.lake_ok.get(m)]
        for m in targets[1:]:
            if not prep.lake_ok.get(m):
                ft = failing_theorems(prep.lake_log.get(m, ""))
                broken.append({"kind": "proof", "name": m, "failing": ft,
                               "detail": prep.lake_log.get(m, "")[-1500:]})
        if not prep.lake_ok.get("h3model"):
            broken.append({"kind": "model-build", "name": "h3model", "detail": prep.lake_log.get("h3model", "")[-1500:]})
        # audit
        if mods_ok and obligations:
            avail = [t for t in obligations if any(True for _ in [0])]
            res, missing, raw = audit_axioms(obligations, mods_ok)
            for t in obligations:
                if t in res:
                    ax = res[t]
                    bad = [a for a in ax if a not in ALLOWED_AXIOMS and not re.search(r"\._native\.bv_decide\.ax_", a)]
                    bvd = [a for a in ax if re.search(r"\._native\.bv_decide\.ax_", a)]
                    # bv_decide's per-theorem LRAT-checker axioms are accepted (DESIGN §2.6) and listed
                    # by name in the evidence; anything else outside the three standard axioms is not
                    if bad:
                        broken.append({"kind": "axiom-audit", "name": t, "detail": f"axioms {ax}"})
                    else:
                        discharged.append(t)
                        theorem_axioms[t] = ax
                else:
                    if not any(b["kind"] == "proof" for b in broken):
                        broken.append({"kind": "proof", "name": t, "failing": [], "detail": "theorem not found: " + raw[-400:]})
        hits = grep_forbidden(lean_sources())
        if hits:
            broken.append({"kind": "forbidden-token", "name": "grep", "detail": "; ".join(hits[:10])})
        if tier == "thorough" and getattr(mod, "LEANCHECKER", True):
            for m in mods_ok:
                r = subprocess.run(["lake", "env", "leanchecker", m], cwd=LEAN, capture_output=True, text=True)
                if r.returncode != 0:
                    broken.append({"kind": "leanchecker", "name": m, "detail": (r.stdout + r.stderr)[-800:]})

    violations = []   # dicts: {what, ops, expected, observed, key}
    cov = {"streams": {}, "evaluator": {}}
    samples = []
    evaluations = 0
    distinct = set()
    ctx = None
    if prep.harness_error:
        broken.append({"kind": "harness-build", "name": "h3drv", "detail": prep.harness_error})
    else:
        ctx = Ctx(prep, pid, seed, tier)
        # ---- correspondence
        streams = mod.streams(rng, tier)
        if hasattr(mod, "streams_ctx"):
            # streams whose op lines carry answers of the real library (geometry supplied by the C side)
            streams = streams + mod.streams_ctx(ctx, rng, tier)
        corpus = load_corpus(pid)
        if corpus:
            streams = [("corpus", corpus)] + streams
        disagreements = []
        for name, ops in streams:
            cout = ctx.c(ops, tag="c_" + name)
            evaluations += len(ops)
            nontriv = getattr(mod, "nontrivial", lambda op, ans: not ans.startswith("err"))
            for o, a in zip(ops, cout):
                if nontriv(o, a):
                    distinct.add(o)
            st = {"ops": len(ops), "disagreements": 0}
            if ops:
                samples.append({"stream": name, "op": ops[len(ops) // 2], "c_answer": cout[len(ops) // 2][:200]})
            if prep.model:
                try:
                    mout = ctx.m(ops, tag="m_" + name)
                    for o, a, b in zip(ops, cout, mout):
                        if a != b and b != "skip" and a != "notrun":
                            st["disagreements"] += 1
                            if len(disagreements) < 50:
                                disagreements.append({"stream": name, "op": o, "c": a[:500], "model": b[:500]})
                except RuntimeError as e:
                    broken.append({"kind": "model-run", "name": name, "detail": str(e)})
            # answer-shape statistics
            kinds = {}
            for a in cout:
                k = a.split(" ")[0] + ((" " + a.split(" ")[1]) if a.startswith("err") and len(a.split(" ")) > 1 else "")
                kinds[k] = kinds.get(k, 0) + 1
            st["answer_kinds"] = kinds
            cov["streams"][name] = st
        if disagreements:
            broken.append({"kind": "correspondence", "name": ",".join(sorted({d["stream"] for d in disagreements})),
                           "detail": disagreements[:10]})
        # ---- C-side evaluator of the property statement
        focus = [d["op"] for d in disagreements] if disagreements else []
        budget = 1 if not broken else 10
        ctx.in_evaluator = True
        try:
            ev = mod.evaluate(ctx, rng, tier, focus=focus, budget=budget, broken=broken)
        except AbortBudget:
            ev = {"coverage": {"stopped": f"the real library aborted on {len(ctx.aborts)} operations; exploration stopped"},
                  "violations": []}
        except Exception as ex:      # the evaluator could not interpret what the library returned
            import traceback
            tb = traceback.format_exc()
            log("evaluator raised:", tb)
            ev = {"coverage": {"stopped": "the evaluator raised " + repr(ex)}, "violations": []}
            broken.append({"kind": "evaluator", "name": f"checks/props/{pid}.py evaluate()",
                           "detail": "the evaluator raised while interpreting the library's answers: " + tb[-1500:]})
        ctx.in_evaluator = False
        # ---- aborts are violations of C12 and of this property's stream
        for ab in ctx.aborts:
            violations.append({"what": "the real library aborted (sanitizer / assertion / NEVER-ALWAYS)",
                               "ops": [ab["op"]], "observed": ab["kind"], "expected": "normal return",
                               "key": "abort:" + ab["op"].replace(" ", "_"), "stderr": ab["stderr"]})
        cov["evaluator"] = ev.get("coverage", {})
        evaluations += ev.get("evaluations", 0)
        for s in ev.get("distinct", []):
            distinct.add(s)
        violations += ev.get("violations", [])
        samples += ev.get("samples", [])[:5]

    # ---- report
    findings = [f for f in load_findings() if f["property"] == pid]
    known_keys = {f["key"]: f for f in findings}
    new_viol, known_hit = [], []
    for v in violations:
        if v.get("key") in known_keys:
            known_hit.append(v)
        else:
            new_viol.append(v)
    for f in findings:
        print(f"KNOWN-FINDING: property={pid} {f['what']} (key={f['key']}; "
              f"{'reproduced' if any(v.get('key') == f['key'] for v in known_hit) else 'not exercised'} in this run)")
    lines = []
    rc = 0
    if new_viol:
        rc = 1
        v = new_viol[0]
        path = os.path.join(REPLAYS, f"{pid}-{seed}.json")
        json.dump({"property": pid, "kind": "failing-input", "seed": seed, "tier": tier,
                   "what": v["what"], "ops": v["ops"], "expected": v.get("expected"),
                   "observed": v.get("observed"), "more": new_viol[1:20], "broken": broken,
                   "rerun": f"python3 checks/run.py --replay {os.path.relpath(path, VERIF)}"},
                  open(path, "w"), indent=1, default=str)
        lines.append(f"VIOLATION property={pid} replay={path}")
    elif broken:
        rc = 1
        path = os.path.join(REPLAYS, f"{pid}-{seed}.json")
        names = []
        for b in broken:
            if b["kind"] == "proof" and b.get("failing"):
                names += [f"{x['theorem']} ({x['file']}:{x['line']})" for x in b["failing"]]
            else:
                names.append(f"{b['kind']}:{b['name']}")
        json.dump({"property": pid, "kind": "no-failing-input-found", "seed": seed, "tier": tier,
                   "no_longer_checks": names, "broken": broken,
                   "searched": cov.get("evaluator", {}),
                   "rerun": f"python3 checks/run.py --property {pid} --tier {tier}"},
                  open(path, "w"), indent=1, default=str)
        lines.append(f"VIOLATION property={pid} replay={path} no-failing-input-found")
    wall = time.time() - t0
    level = mod.LEVEL
    coverage = {
        "evaluations": evaluations,
        "distinct_nontrivial": len(distinct),
        "rule": getattr(mod, "RULE", "ops generated from one PRNG (VERIF_SEED); an op is non-trivial when the "
                        "real library answered it with a success value (not an error code); distinct = distinct op lines"),
        "samples": samples[:12] or [{"note": "no harness run"}],
        "obligations": len(obligations),
        "discharged": len(discharged),
        "theorems": discharged,
        "theorem_axioms": theorem_axioms,
        "checker_cmd": "cd lean && lake build " + " ".join(mod.MODULES) + " && lake env lean <#print axioms audit>"
                       + (" && lake env leanchecker <module>" if tier == "thorough" else ""),
        "trusted_base": trusted_base(getattr(mod, "TRUSTED_EXTRA", [])),
        "explanation": getattr(mod, "EXPLANATION", ""),
        "streams": cov["streams"],
        "evaluator": cov["evaluator"],
        "not_proved": getattr(mod, "NOT_PROVED", []),
        "broken": [f"{b['kind']}:{b['name']}" for b in broken],
    }
    ev = {"property_id": pid, "tier": tier, "seed": seed, "level": level, "coverage": coverage,
          "assumptions": getattr(mod, "ASSUMPTIONS", []), "wall_s": round(wall, 2),
          "violations": len(new_viol) + (1 if (broken and not new_viol) else 0)}
    os.makedirs(EVID, exist_ok=True)
    json.dump(ev, open(os.path.join(EVID, f"{pid}.json"), "w"), indent=1, default=str)
    if ctx:
        ctx.cleanup()
    for l in lines:
        print(l)
    if rc == 0:
        print(f"OK property={pid} tier={tier} seed={seed} theorems={len(discharged)}/{len(obligations)} "
              f"ops={evaluations} wall={wall:.1f}s")
    else:
        for b in broken[:6]:
            log("BROKEN", b["kind"], b["name"], str(b.get("failing") or b.get("detail"))[:600])
        for v in new_viol[:5]:
            log("FAILING-INPUT", v["what"], v["ops"][:3], "expected", str(v.get("expected"))[:200], "observed", str(v.get("observed"))[:200])
    return rc


def load_corpus(pid):
    p = os.path.join(VERIF, "corpus", f"{pid}.ops")
    if os.path.exists(p):
        return [l.strip() for l in open(p) if l.strip() and not l.startswith("#")]
    return []


def do_setup():
    prep = Prep()
    with Lock():
        regenerate(prep)
        if prep.translator_error:
            log("translator:", prep.translator_error)
            return 1
        build_harness(prep, ("asan", "fast"))
        if prep.harness_error:
            log(prep.harness_error)
            return 1
        r = subprocess.run(["lake", "build", "h3model", "H3Model", "H3Proofs"], cwd=LEAN)
        if r.returncode != 0:
            return 1
    print("setup ok")
    return 0


def do_replay(path):
    rp = json.load(open(path))
    pid = rp["property"]
    if rp.get("kind") != "failing-input":
        print(f"replay names broken obligations only: {rp.get('no_longer_checks')}; re-running the check")
        return run_property(pid, rp.get("tier", "quick"), rp.get("seed", 1))
    prep = Prep()
    with Lock():
        build_harness(prep, ("asan",))
    if prep.harness_error:
        log(prep.harness_error)
        return 2
    ctx = Ctx(prep, pid, 0, "quick")
    out = ctx.c(rp["ops"])
    ctx.cleanup()
    for o, a in zip(rp["ops"], out):
        print(o, "->", a[:300])
    print("expected:", rp.get("expected"))
    print("observed at report time:", rp.get("observed"))
    mod = importlib.import_module(f"props.{pid}")
    if hasattr(mod, "replay_verdict"):
        bad = mod.replay_verdict(rp, out)
        print("property violated on replay" if bad else "property holds on replay")
        return 1 if bad else 0
    return 0


def main():
    ap = argparse.ArgumentParser()
    ap.add_argument("--setup", action="store_true")
    ap.add_argument("--property")
    ap.add_argument("--tier", default=os.environ.get("VERIF_TIER", "quick"))
    ap.add_argument("--replay")
    a = ap.parse_args()
    os.chdir(VERIF)
    if a.setup:
        sys.exit(do_setup())
    if a.replay:
        sys.exit(do_replay(a.replay))
    seed = int(os.environ.get("VERIF_SEED", "1"))
    sys.exit(run_property(a.property, a.tier, seed))


if __name__ == "__main__":
    main()
