#!/usr/bin/env python3
"""dev tool: run the registered quick checks against every seeded change (apply to /repo, run, revert)
and write the catch matrix to seeded/MATRIX.json.  Never leaves /repo modified."""
import json, os, shutil, subprocess, sys, tempfile
VERIF = os.path.dirname(os.path.dirname(os.path.abspath(__file__)))
REPO = os.environ.get("H3_REPO", "/repo")          # a clone at the same commit when several workers share the matrix
OWN_ONLY = os.environ.get("SEEDTEST_OWN_ONLY") == "1"
OUT = os.environ.get("SEEDTEST_OUT", os.path.join(VERIF, "seeded", "MATRIX.json"))
ids = sorted(d for d in os.listdir(os.path.join(VERIF, "seeded")) if os.path.isdir(os.path.join(VERIF, "seeded", d)))
extra = {"C02": ["C03"], "C03": ["C02"], "C04": ["C13", "C06"], "C12": ["C13"], "C14": ["C09"], "C09": ["C14"],
         "C07": ["C15"], "C15": ["C07"], "C13": ["C04", "C12"], "C17": ["C05"], "C05": ["C17"]}
res = {}
if os.path.exists(os.path.join(VERIF, "seeded", "MATRIX.json")) and sys.argv[1:]:
    res = json.load(open(os.path.join(VERIF, "seeded", "MATRIX.json")))
sel = sys.argv[1:] or ids
# the evidence files must describe the unchanged tree: keep them aside while seeded changes are applied
_keep = tempfile.mkdtemp(prefix="evid-", dir="/var/tmp")
for f in os.listdir(os.path.join(VERIF, "evidence")):
    if f.endswith(".json"):
        shutil.copy(os.path.join(VERIF, "evidence", f), _keep)
for sid in sel:
    patch = os.path.join(VERIF, "seeded", sid, "patch.diff")
    meta = json.load(open(os.path.join(VERIF, "seeded", sid, "meta.json")))
    prop = meta["property"]
    seed = os.environ.get("VERIF_SEED", "1")
    r = subprocess.run(["git", "-C", REPO, "apply", patch], capture_output=True, text=True)
    if r.returncode != 0:
        res[sid] = {"apply": "FAILED " + r.stderr[:200]}
        continue
    try:
        row = {}
        for chk in [prop] + ([] if OWN_ONLY else extra.get(prop, [])):
            p = subprocess.run([sys.executable, os.path.join(VERIF, "checks/run.py"), "--property", chk, "--tier", "quick"],
                               capture_output=True, text=True, cwd=VERIF)
            viol = [l for l in p.stdout.split("\n") if l.startswith("VIOLATION")]
            kind = "missed"
            if viol:
                kind = "no-failing-input-found" if viol[0].endswith("no-failing-input-found") else "failing-input"
            row[chk] = {"rc": p.returncode, "result": kind}
        res[sid] = row
    finally:
        subprocess.run(["git", "-C", REPO, "checkout", "--", "."])
    print(sid, res[sid], flush=True)
json.dump(res, open(OUT, "w"), indent=1)
for f in os.listdir(_keep):
    shutil.copy(os.path.join(_keep, f), os.path.join(VERIF, "evidence", f))
shutil.rmtree(_keep, ignore_errors=True)
