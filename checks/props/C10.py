"""C10 — directed edges encode exactly the neighbour pairs and their shared boundary."""
import math
import gen
from evalutil import *

ID = "C10"
LEVEL = "proof"
MODULES = ["H3Proofs.Props.C10", "H3Proofs.Props.C10Res1", "H3Proofs.Props.C10Valid", "H3Proofs.Props.C11Pent", "H3Proofs.Props.C10Gen"]
THEOREMS = "auto"
ASSUMPTIONS = ["model of cellsToDirectedEdge / getDirectedEdgeOrigin / getDirectedEdgeDestination / "
               "isValidDirectedEdge / originToDirectedEdges over generated bit macros, tied by exact correspondence",
               "boundary coincidence and lengths (great-circle arithmetic) are evaluated on the real library, not proved"]
ASSUMPTIONS.append('getDirectedEdgeOrigin and isValidDirectedEdge (with isPentagon and isValidCell) are translated from the C text on every run and PROVED equal to the model functions for all 2^64 values and every value of the uninitialised local (C10Gen)')
NOT_PROVED = ["directedEdgeToBoundary coincidence with the reverse edge within 1e-12 and with the points common to the two cells' boundaries; edgeLength = summed great-circle length"]
EXPLANATION = ("validity predicate and encode/decode round trip are theorems (all 2^64 candidates); correspondence of "
               "all edge functions; evaluator: every (cell, neighbour) pair, non-neighbours, malformed edges, boundary "
               "of each edge vs the reversed boundary of the opposite edge and vs the points common to the boundaries of origin and destination (cells along all 30 icosahedron edges included), lengths in the three units")
EARTH_R = 6371.007180918475


def _cells(rng, tier):
    cells = []
    for res in range(16):
        for bc in (4, 58, 117):
            cells.append(gen.mkcell(res, bc, [0] * res))
    for bc in range(122):
        cells.append(gen.mkcell(0, bc, []))
    for r in (1, 3):
        for _ in range(40 if tier == "quick" else 400):
            cells.append(gen.rand_cell(rng, res=r))
    for _ in range(100 if tier == "quick" else 1500):
        cells.append(gen.rand_cell(rng))
    return list(dict.fromkeys(cells))


def spec_valid_edge(e):
    mode = (e >> 59) & 15
    d = (e >> 56) & 7
    origin = (e & ~(0x7f << 56) & ((1 << 64) - 1)) | (1 << 59)
    if e >> 63:
        return False
    return mode == 2 and 1 <= d <= 6 and gen.layout_spec(origin) and not (gen.is_pentagon(origin) and d == 1)


def streams(rng, tier):
    ops = []
    for h in _cells(rng, tier):
        x = gen.hx(h)
        ops.append(f"edgesfrom {x}")
        for d in range(0, 8):
            e = (h & ~(0xff << 56)) | (2 << 59) | (d << 56)
            ops += [f"edgevalid {gen.hx(e)}", f"edgedest {gen.hx(e)}", f"edgeorigin {gen.hx(e)}", f"edgecells {gen.hx(e)}"]
            if d in (0, 1, 4, 7):
                # the c2lean translations of isValidDirectedEdge / getDirectedEdgeOrigin / maxFaceCount on the same index
                ops.append(f"genfn3 {gen.hx(e)} {gen.hx(rng.getrandbits(64))} {gen.hx(rng.getrandbits(64))}")
        ops.append(f"edge {x} {gen.hx(gen.rand_cell(rng, res=(h >> 52) & 15))}")
    for _ in range(2000):
        m = gen.malformed(rng)
        e = (m & ~(0xf << 59)) | (rng.randrange(16) << 59)
        ops += [f"edgevalid {gen.hx(e)}", f"edgedest {gen.hx(e)}", f"edgeorigin {gen.hx(e)}"]
        if rng.random() < 0.25:
            ops.append(f"genfn3 {gen.hx(e)} {gen.hx(rng.getrandbits(64))} {gen.hx(rng.getrandbits(64))}")
    return [("edges", ops)]


def evaluate(ctx, rng, tier, focus, budget, broken):
    viol_ = []
    nb = Neigh(ctx)
    cells = _cells(rng, tier)[: 400 * budget if tier == "quick" else 3000]
    # cells that touch an icosahedron edge (their shared edges carry the third, face-crossing point), all resolutions
    from props.C03 import edge_points
    ep, _ = edge_points(ctx, rng, 5 if tier == "quick" else 40)
    eops = []
    for (la, ln) in ep:
        eops.append(f"ll2c {f2bits(la)} {f2bits(ln)} {rng.choice([1, 1, 3, 5, 7, 9, 11, 13, 15, rng.randrange(16)])}")
    for a in ctx.c(eops, tag="edgecells"):
        if ok(a):
            cells.append(int(a.split()[1], 16))
    cells = list(dict.fromkeys(cells))
    nb.fetch(cells)
    ops, meta = [], []
    for h in cells:
        for x in (nb.cache[h] or []):
            ops.append(f"edge {gen.hx(h)} {gen.hx(x)}"); meta.append((h, x, True))
            for y in (nb.cache.get(x) or [])[:0]:
                pass
        far = gen.rand_cell(rng, res=(h >> 52) & 15)
        if far != h and far not in (nb.cache[h] or []):
            ops.append(f"edge {gen.hx(h)} {gen.hx(far)}"); meta.append((h, far, False))
        ops.append(f"edge {gen.hx(h)} {gen.hx(h)}"); meta.append((h, h, False))
    out = ctx.c(ops, tag="eval")
    edges = {}
    for o, (a_, b_, isn), a in zip(ops, meta, out):
        if isn:
            if not ok(a):
                viol_.append(viol("cellsToDirectedEdge failed for neighbouring cells", o, "an edge", a)); continue
            edges[(a_, b_)] = int(a.split()[1], 16)
        elif a != "err 11":
            viol_.append(viol("cellsToDirectedEdge of non-neighbours must give E_NOT_NEIGHBORS", o, "err 11", a))
    ops2, meta2 = [], []
    for (a_, b_), e in edges.items():
        x = gen.hx(e)
        ops2 += [f"edgevalid {x}", f"edgeorigin {x}", f"edgedest {x}", f"edgeboundary {x}", f"edgelen {x}"]
        meta2 += [(a_, b_, e)] * 5
    for h in cells:
        ops2.append(f"edgesfrom {gen.hx(h)}"); meta2.append((h, None, None))
    out2 = ctx.c(ops2, tag="eval2")
    bds = {}
    for o, (a_, b_, e), a in zip(ops2, meta2, out2):
        t = o.split()[0]
        if t == "edgevalid" and a != "ok 1":
            viol_.append(viol("edge of a neighbour pair rejected by isValidDirectedEdge", o, "ok 1", a))
        elif t == "edgeorigin" and a != "ok " + gen.hx(a_):
            viol_.append(viol("origin does not decode back", o, "ok " + gen.hx(a_), a))
        elif t == "edgedest" and a != "ok " + gen.hx(b_):
            viol_.append(viol("destination does not decode back", o, "ok " + gen.hx(b_), a))
        elif t == "edgeboundary":
            if ok(a):
                bds[(a_, b_)] = parse_boundary(a)
            else:
                viol_.append(viol("directedEdgeToBoundary failed", o, "2 or 3 points", a))
        elif t == "edgelen":
            if ok(a) and (a_, b_) in bds:
                r, km, m = [bits2f(x) for x in a.split()[1:4]]
                bd = bds[(a_, b_)]
                L = sum(gc_dist(bd[i], bd[i + 1]) for i in range(len(bd) - 1))
                if abs(r - L) > 1e-9 * max(L, 1e-12) + 1e-15 or abs(km - r * EARTH_R) > 1e-9 * km or abs(m - km * 1000) > 1e-9 * m:
                    viol_.append(viol("edgeLength is not the great-circle length of the boundary stretch in the unit",
                                      o, f"rads {L!r} km {L * EARTH_R!r}", f"{r!r} {km!r} {m!r}"))
        elif t == "edgesfrom":
            h = a_
            got = parse_hs(a) if ok(a) else []
            exp = set(edges[(h, x)] for x in (nb.cache[h] or []) if (h, x) in edges)
            nz = [g for g in got if g != 0]
            if set(nz) != exp or len(got) != 6 or (gen.is_pentagon(h) and got[0] != 0) or len(nz) != len(set(nz)):
                viol_.append(viol("originToDirectedEdges does not list exactly the neighbour edges", o,
                                  [gen.hx(e) for e in sorted(exp)], a))
        if len(viol_) >= 20:
            break
    # boundary identical but reversed for the opposite edge
    nrev = 0
    for (a_, b_), bd in bds.items():
        rb = bds.get((b_, a_))
        if rb is None:
            continue
        nrev += 1
        if len(bd) not in (2, 3) or len(rb) != len(bd) or any(gc_dist(p, q) > 1e-12 for p, q in zip(bd, reversed(rb))):
            viol_.append(viol("edge boundary is not the reversed boundary of the opposite edge (1e-12 rad)",
                              [f"edgeboundary {gen.hx(edges[(a_, b_)])}", f"edgeboundary {gen.hx(edges[(b_, a_)])}"],
                              "same 2 or 3 points reversed", f"{bd} vs {rb}"))
    # the stretch is the part of the boundary that the two cells share: the points of cellToBoundary(origin) that are
    # also points of cellToBoundary(destination), no more and no fewer (2 corners, plus the point on an icosahedron
    # edge when the shared edge crosses one)
    want = sorted({c_ for pair in bds for c_ in pair})
    cb = {}
    for c_, a in zip(want, ctx.c([f"boundary {gen.hx(c_)}" for c_ in want], tag="eval_cb")):
        if ok(a):
            cb[c_] = parse_boundary(a)
    nshared = 0
    for (a_, b_), bd in bds.items():
        if a_ not in cb or b_ not in cb:
            continue
        tol = 1e-11
        common = [p for p in cb[a_] if any(gc_dist(p, q) < tol for q in cb[b_])]
        nshared += 1
        okk = len(bd) == len(common) and all(any(gc_dist(p, q) < tol for q in common) for p in bd)
        if not okk:
            viol_.append(viol("directedEdgeToBoundary is not the boundary stretch shared by the two cells "
                              "(points common to cellToBoundary of origin and destination)",
                              [f"edgeboundary {gen.hx(edges[(a_, b_)])}", f"boundary {gen.hx(a_)}", f"boundary {gen.hx(b_)}"],
                              f"{len(common)} points {common}", f"{len(bd)} points {bd}"))
            if len(viol_) >= 20:
                break
    # validity predicate on arbitrary candidates
    cand = []
    for h in cells[:300]:
        for d in range(8):
            for mode in (1, 2, 3):
                cand.append((h & ~(0xff << 56)) | (mode << 59) | (d << 56))
    for _ in range(3000 * budget):
        m = gen.malformed(rng)
        cand.append((m & ~(0xf << 59)) | (rng.choice([2, 2, 2, rng.randrange(16)]) << 59))
    ops3 = [f"edgevalid {gen.hx(e)}" for e in cand]
    out3 = ctx.c(ops3, tag="eval3")
    for e, o, a in zip(cand, ops3, out3):
        exp = "ok 1" if spec_valid_edge(e) else "ok 0"
        if a != exp:
            viol_.append(viol("isValidDirectedEdge differs from: mode 2, direction 1-6 (not 1 on a pentagon), valid origin", o, exp, a))
            if len(viol_) >= 25:
                break
    return {"evaluations": len(ops) + len(ops2) + len(ops3), "violations": viol_[:20], "distinct": ops,
            "coverage": {"cells": len(cells), "neighbour_pairs": len(edges), "reverse_pairs_compared": nrev, "stretch_vs_cell_boundaries": nshared,
                         "three_point_edges": sum(1 for b in bds.values() if len(b) == 3), "candidates": len(cand)},
            "samples": [{"op": ops2[i], "c_answer": out2[i][:160]} for i in (0, 3, 4)]}


def replay_verdict(rp, out):
    return True
