"""C15 — containment modes mean what they say and are nested; size bound holds."""
import math
import gen, polyutil as pu
from evalutil import *
from props.C07 import EDGE, candidates

ID = "C15"
LEVEL = "proof"
MODULES = ["H3Proofs.Props.C15", "H3Proofs.Props.C07Iter"]
THEOREMS = "auto"
TECHNIQUE = ("Lean 4 theorems about a model of polyfill.c's traversal and per-mode decision (flag validation for all 2^32 "
             "words; per-mode decision formula with the nesting theorems; the iterator loop = recursive descent and, "
             "relative to the two bounding-box pruning assumptions, result = all valid cells of the resolution filtered "
             "by the mode's predicate, duplicate-free, in order; capacity rule) + model/code correspondence (traversal "
             "model run over the library's own geometry answers vs the real compact iterator); the geometric meaning "
             "of the modes and the size bound are decided by a differential run against independent planar predicates")
ASSUMPTIONS = ["cell boundaries/centres are floating-point outputs of the library; cells within 1e-9 rad of a decision "
               "boundary are ambiguous and skipped; cells containing a pole are excluded (as the property does)"]
ASSUMPTIONS.append("the floating-point predicates (cellToBBox, bbox overlap/containment, point-in-polygon, boundary "
                   "crossing) enter the model as an abstract geometry; the exactness theorem assumes they prune soundly "
                   "(Sound: a skipped cell has no accepted descendant, a contained cell only accepted ones)")
NOT_PROVED = ["geometric meaning of FULL / OVERLAPPING on the sphere (that the library's floating-point predicates decide "
              "what their names say, and prune soundly)", "maxPolygonToCellsSizeExperimental >= count (H4)"]
EXPLANATION = ("traversal / decision / nesting / capacity theorems relative to an abstract geometry, tied to the code by running "
               "the traversal model over the library's own predicate answers; four modes on every generated polygon: FULL only-if/if, OVERLAPPING if/never, duplicate-freeness, "
               "nesting FULL<=CENTER<=OVERLAPPING<=OVERLAPPING_BBOX, size bound, E_MEMORY_BOUNDS on a smaller "
               "capacity, E_OPTION_INVALID on bad flags")
EPS = 1e-9


def _cases(rng, tier):
    out = []
    n = 28 if tier == "quick" else 400
    kinds = ["convex", "concave", "holes", "anti", "tiny", "needle", "anti-holes"]
    for k in range(n):
        kind = kinds[k % len(kinds)]
        loops, (lat, lng, radius) = gen.rand_polygon(rng, kind=kind)
        cand = [r for r in range(16) if 0.4 <= radius / EDGE[r] <= 12]
        if kind == "anti-holes":
            # holes smaller than the coarse cells of the compact traversal, next to the antimeridian
            cand = [r for r in range(16) if 6 <= radius / EDGE[r] <= 25] or cand
        if kind == "tiny":
            cand = [r for r in range(16) if 0.02 <= radius / EDGE[r] <= 2] or [15]
        out.append((loops, lat, lng, radius, rng.choice(cand) if cand else 15, kind))
    # axis-aligned rectangles next to the antimeridian that do NOT cross it (cells crossing it do)
    for _ in range(3 if tier == "quick" else 30):
        lat = rng.uniform(-1.0, 1.0)
        w = rng.uniform(0.02, 0.035)
        e = math.pi - rng.uniform(0.0005, 0.003)
        sign = rng.choice([1, -1])
        rect = [(lat + 0.02, sign * (e - w)), (lat + 0.02, sign * e), (lat - 0.02, sign * e), (lat - 0.02, sign * (e - w))]
        out.append(([rect], lat, sign * (e - w / 2), 0.03, 4, "near-antimeridian"))
    return out


def block_cases(ctx, rng, tier):
    """polygons that swallow whole coarser cells: a square around a cell of resolution r-2 (or r-3), filled at r, so the
    compact iterator returns coarse interior cells that are expanded into many output slots (capacity rule inside an
    expansion); hexagon and pentagon parents"""
    out = []
    n = 6 if tier == "quick" else 40
    for k in range(n):
        res = rng.randrange(3, 13)
        up = rng.choice([2, 2, 3])
        if res - up < 0:
            continue
        if k % 3 == 2:
            pc = gen.mkcell(res - up, rng.choice(gen.PENT), [0] * (res - up))
        else:
            pc = gen.parent(gen.rand_cell(rng, res=res), res - up)
        a = ctx.c([f"c2ll {gen.hx(pc)}"], tag="block")[0]
        if not ok(a):
            continue
        la, ln = bits2f(a.split()[1]), bits2f(a.split()[2])
        if abs(la) > 1.3:
            continue
        r_ = 1.5 * EDGE[res - up]
        c_ = math.cos(la)
        loops = [[(la + r_, gen.norm_lng(ln - r_ / c_)), (la + r_, gen.norm_lng(ln + r_ / c_)),
                  (la - r_, gen.norm_lng(ln + r_ / c_)), (la - r_, gen.norm_lng(ln - r_ / c_))]]
        out.append((loops, la, ln, 1.6 * r_ / min(1.0, c_ + 0.2), res, "block"))
    return out


def incell_cases(ctx, rng, tier):
    """polygons lying entirely inside one cell, off-centre (a slab between two adjacent centre-to-vertex rays), at all
    latitudes including near the poles, and thin east-west / north-south strips inside a cell"""
    out = []
    n = 20 if tier == "quick" else 200
    pts = []
    for k in range(n):
        lat = rng.choice([rng.uniform(-1.45, -0.9), rng.uniform(-0.9, 0.9), rng.uniform(0.9, 1.45)])
        res_ = rng.randrange(1, 16)
        if k % 4 == 3:     # cells that straddle the antimeridian
            pts.append((lat, rng.choice([1, -1]) * (math.pi - rng.uniform(0, 0.3) * EDGE[res_]), res_))
        else:
            pts.append((lat, rng.uniform(-3.1, 3.1), res_))
    a = ctx.c([f"ll2c {f2bits(la)} {f2bits(ln)} {r}" for la, ln, r in pts], tag="incell")
    cells = [int(x.split()[1], 16) for x in a if ok(x)]
    g = ctx.c([y for h in cells for y in (f"boundary {gen.hx(h)}", f"c2ll {gen.hx(h)}")], tag="incell2")
    for i, h in enumerate(cells):
        ab, ac = g[2 * i], g[2 * i + 1]
        if not (ok(ab) and ok(ac)):
            continue
        c = (bits2f(ac.split()[1]), bits2f(ac.split()[2]))
        bd = [(la, pu.shift_near(ln, c[1])) for la, ln in parse_boundary(ab)]
        if max(abs(la) for la, _ in bd) > 1.5 or max(abs(ln - c[1]) for _, ln in bd) > 1.0:
            continue
        res = (h >> 52) & 15
        j = rng.randrange(len(bd))
        v0, v1 = bd[j], bd[(j + 1) % len(bd)]
        mode = rng.randrange(4)
        if mode == 3:      # a polygon around the cell with a small hole that contains the cell centre (and lies in the cell)
            dlat = max(abs(la - c[0]) for la, _ in bd)
            dlng = max(abs(ln - c[1]) for _, ln in bd)
            outer = [(c[0] - 2.5 * dlat, c[1] - 2.5 * dlng), (c[0] - 2.5 * dlat, c[1] + 2.5 * dlng),
                     (c[0] + 2.5 * dlat, c[1] + 2.5 * dlng), (c[0] + 2.5 * dlat, c[1] - 2.5 * dlng)]
            hole = [(c[0] - 0.2 * dlat, c[1] - 0.2 * dlng), (c[0] - 0.2 * dlat, c[1] + 0.25 * dlng),
                    (c[0] + 0.25 * dlat, c[1] + 0.2 * dlng), (c[0] + 0.2 * dlat, c[1] - 0.2 * dlng)]
            if max(abs(p_[0]) for p_ in outer) < 1.5:
                loops = [[(la, gen.norm_lng(ln)) for la, ln in lp] for lp in (outer, hole)]
                out.append((loops, c[0], gen.norm_lng(c[1]), 3 * EDGE[res], res, "hole-in-cell"))
            continue
        if False:
            # micro polygons straddling a cell edge or corner (a fraction of a cell across: every polygon edge is far
            # shorter than a cell edge), and cell-sized polygons whose outline is densified to hundreds of tiny segments
            t = rng.choice([0.0, 0.5, rng.random()])
            q = (v0[0] + t * (v1[0] - v0[0]), v0[1] + t * (v1[1] - v0[1]))
            if rng.random() < 0.6:
                # down to polygon edges e with e * (cell edge) far below 1e-16 rad^2 (absolute thresholds on cross
                # products / denominators in the crossing tests)
                rr = rng.choice([0.2e-16 / EDGE[res], 1e-16 / EDGE[res], 0.02 * EDGE[res], 0.2 * EDGE[res]])
                quad = gen.ngon(q[0], q[1], rr, rng.choice([3, 4, 5]), rng, jitter=0.2, phase=rng.uniform(0, 1))
                kind_ = "micro"
            else:
                rr = rng.choice([0.8, 1.5]) * EDGE[res]
                cor = gen.ngon(q[0], q[1], rr, 4, None, phase=rng.uniform(0, 1))
                nseg = int(min(700, max(50, rr * 1.5 / (0.4e-16 / EDGE[res]))))
                quad = []
                for a_ in range(4):
                    P_, Q_ = cor[a_], cor[(a_ + 1) % 4]
                    quad += [(P_[0] + (Q_[0] - P_[0]) * i_ / nseg, P_[1] + (Q_[1] - P_[1]) * i_ / nseg) for i_ in range(nseg)]
                kind_ = "densified"
            if max(abs(p_[0]) for p_ in quad) < 1.5:
                out.append(([[(la, gen.norm_lng(ln)) for la, ln in quad]], q[0], gen.norm_lng(q[1]), rr, res, kind_))
            continue
        if mode == 0:      # slab between two adjacent rays
            t0, t1 = rng.uniform(0.1, 0.3), rng.uniform(0.6, 0.85)
            quad = [(c[0] + t * (v[0] - c[0]), c[1] + t * (v[1] - c[1])) for v, t in ((v0, t0), (v0, t1), (v1, t1), (v1, t0))]
        else:              # thin strip along the chord between two next-but-one vertices (the most east-west / north-south one):
            # as long as a polygon inside a cell can get without containing the cell centre
            nb_ = len(bd)
            best, bestv = 0, -1.0
            for jj in range(nb_):
                a_, b_ = bd[jj], bd[(jj + 2) % nb_]
                val = abs(b_[1] - a_[1]) if mode == 1 else abs(b_[0] - a_[0])
                if val > bestv:
                    best, bestv = jj, val
            a_, b_ = bd[best], bd[(best + 2) % nb_]
            P = (c[0] + 0.9 * (a_[0] - c[0]), c[1] + 0.9 * (a_[1] - c[1]))
            Q = (c[0] + 0.9 * (b_[0] - c[0]), c[1] + 0.9 * (b_[1] - c[1]))
            P2 = (P[0] + 0.06 * (c[0] - P[0]), P[1] + 0.06 * (c[1] - P[1]))
            Q2 = (Q[0] + 0.06 * (c[0] - Q[0]), Q[1] + 0.06 * (c[1] - Q[1]))
            quad = [P, Q, Q2, P2]
        loops = [[(la, gen.norm_lng(ln)) for la, ln in quad]]
        qc = (sum(p[0] for p in quad) / 4, gen.norm_lng(sum(p[1] for p in quad) / 4))
        out.append((loops, qc[0], qc[1], EDGE[res], res, "in-cell-%d" % mode))
    return out


def micro_cases(ctx, rng, tier):
    """resolutions 13-15: polygons a small fraction of a cell across that straddle a cell edge / corner (every polygon
    edge e so short that e * (cell edge) is far below 1e-16 rad^2: absolute thresholds on cross products and
    denominators of the crossing tests), and a cell-sized square whose outline is cut into hundreds of tiny segments"""
    out = []
    pts = []
    per = 3 if tier == "quick" else 20
    for res in (13, 14, 15):
        for _ in range(per):
            pts.append((rng.uniform(-1.3, 1.3), rng.uniform(-3.1, 3.1), res))
    a = ctx.c([f"ll2c {f2bits(la)} {f2bits(ln)} {r}" for la, ln, r in pts], tag="micro")
    cells = [int(x.split()[1], 16) for x in a if ok(x)]
    g = ctx.c([f"boundary {gen.hx(h)}" for h in cells], tag="micro2")
    for n_, (h, ab) in enumerate(zip(cells, g)):
        if not ok(ab):
            continue
        bd = parse_boundary(ab)
        res = (h >> 52) & 15
        lng0 = bd[0][1]
        bd = [(la, pu.shift_near(ln, lng0)) for la, ln in bd]
        for t in (0.0, rng.uniform(0.2, 0.8)):
            j = rng.randrange(len(bd))
            v0, v1 = bd[j], bd[(j + 1) % len(bd)]
            q = (v0[0] + t * (v1[0] - v0[0]), v0[1] + t * (v1[1] - v0[1]))
            rr = rng.choice([0.2e-16 / EDGE[res], 0.8e-16 / EDGE[res], 0.02 * EDGE[res]])
            poly = gen.ngon(q[0], q[1], rr, rng.choice([3, 4]), rng, jitter=0.2, phase=rng.uniform(0, 1))
            out.append(([[(la, gen.norm_lng(ln)) for la, ln in poly]], q[0], gen.norm_lng(q[1]), rr, res, "micro"))
        if n_ % per == 0 and (res == 15 or tier != "quick"):
            rr = 1.2 * EDGE[res]
            cor = gen.ngon(bd[0][0], bd[0][1], rr, 4, None, phase=rng.uniform(0, 1))
            nseg = int(min(250, max(50, rr * 1.5 / (0.4e-16 / EDGE[res]))))
            poly = []
            for a_ in range(4):
                P_, Q_ = cor[a_], cor[(a_ + 1) % 4]
                poly += [(P_[0] + (Q_[0] - P_[0]) * i_ / nseg, P_[1] + (Q_[1] - P_[1]) * i_ / nseg) for i_ in range(nseg)]
            out.append(([[(la, gen.norm_lng(ln)) for la, ln in poly]], bd[0][0], gen.norm_lng(bd[0][1]), rr, res, "densified"))
    return out


def polar_cases(rng, tier):
    """small polygons 10 to 150 cell edges away from a pole at resolutions 5-11 (the longitude extent of a cell's bounding
    box is its edge length divided by cos(latitude), which blows up here), none containing the pole"""
    out = []
    for k in range(10 if tier == "quick" else 80):
        # distance from the pole log-uniform between 400 m and 130 km; resolution such that it is 6..400 cell edges
        colat = 10 ** rng.uniform(-4.2, -1.7)
        res = rng.choice([r for r in range(16) if 6 <= colat / EDGE[r] <= 400])
        sgn = rng.choice([1, -1])
        lat = sgn * (math.pi / 2 - colat)
        lng = rng.uniform(-3.0, 3.0)
        R = rng.uniform(1.5, 5) * EDGE[res]
        poly = [(lat + R * math.sin(a_), lng + R * math.cos(a_) / math.cos(lat)) for a_ in
                [2 * math.pi * i / 5 + rng.uniform(-0.3, 0.3) for i in range(5)]]
        if max(abs(p_[0]) for p_ in poly) < math.pi / 2 - 4 * EDGE[res]:
            out.append(([[(la, gen.norm_lng(ln)) for la, ln in poly]], lat, gen.norm_lng(lng), R, res, "near-pole"))
    return out


def streams(rng, tier):
    ops = [f"polyflags {f}" for f in list(range(0, 40)) + [255, 256, 65536, 2 ** 31, 2 ** 32 - 1, 16, 17, 18, 19]]
    return [("flags", ops)]


def cell_geom(ctx, cells, ref_lng, fix):
    out = ctx.c([x for h in cells for x in (f"boundary {gen.hx(h)}", f"c2ll {gen.hx(h)}")], tag="cg")
    G = {}
    for i, h in enumerate(cells):
        ab, ac = out[2 * i], out[2 * i + 1]
        if not (ok(ab) and ok(ac)):
            continue
        c = (bits2f(ac.split()[1]), bits2f(ac.split()[2]))
        bd = parse_boundary(ab)
        cl = pu.shift_near(fix(c[1]), ref_lng)
        bd2 = [(la, pu.shift_near(fix(ln), cl)) for la, ln in bd]
        # pole cells: boundary longitudes wrap all the way round
        # excluded: cells that contain a pole or come within three cell edges of one (their edges are far from straight
        # in lat/lng space), recognised by a vertex that close to the pole or by a boundary spanning > 2 rad of longitude
        res_ = (h >> 52) & 15
        polar = (math.pi / 2 - max(abs(la) for la, _ in bd) < 3 * EDGE[res_]) or \
                (max(x for _, x in bd2) - min(x for _, x in bd2) > 2.0)
        G[h] = ((c[0], cl), bd2, polar)
    return G


def evaluate(ctx, rng, tier, focus, budget, broken):
    viol_ = []
    stats = {}
    nops = 0
    nclass = {"full_must": 0, "full_mustnot": 0, "over_must": 0, "over_mustnot": 0}
    nprims = [0]
    ntrav = [0]
    skipped_big = [0]
    for (loops, lat, lng, radius, res, kind) in _cases(rng, tier) + block_cases(ctx, rng, tier) + incell_cases(ctx, rng, tier) + micro_cases(ctx, rng, tier) + polar_cases(rng, tier):
        ps = gen.poly_str(loops)
        cand = candidates(ctx, lat, lng, radius, res, None)
        if cand is None or len(cand) > 4000:
            continue
        floops, fix = pu.frame(loops)
        ref = sum(x for _, x in floops[0]) / len(floops[0])
        G = cell_geom(ctx, cand, ref, fix)
        ops = [f"polyfillx {res} {m} 0 {ps}" for m in (0, 1, 2, 3)] + [f"maxpolyfillx {res} {m} {ps}" for m in (0, 1, 2, 3)]
        out = ctx.c(ops, tag="modes")
        nops += len(ops) + 2 * len(cand)
        stats[kind] = stats.get(kind, 0) + 1
        sets = {}
        bad = False
        for m in (0, 1, 2, 3):
            a = out[m]
            if a.startswith("skip-too-large"):
                # the harness does not allocate more than 2e7 slots (maxPolygonToCellsSizeExperimental near a pole)
                skipped_big[0] += 1
                bad = True
                continue
            if not ok(a):
                viol_.append(viol("polygonToCellsExperimental failed on a well-formed polygon", ops[m], "success", a)); bad = True; continue
            t = a.split()
            cells = [int(x, 16) for x in t[3:3 + int(t[2])]]
            if len(set(cells)) != len(cells):
                viol_.append(viol("duplicates in the result", ops[m], "duplicate-free", a[:200]))
            sets[m] = set(cells)
            mx = out[4 + m]
            if not ok(mx) or int(mx.split()[1]) < len(cells):
                viol_.append(viol("maxPolygonToCellsSizeExperimental is smaller than the number of cells", ops[4 + m], f">= {len(cells)}", mx))
        if bad or len(sets) < 4:
            continue
        full, center, over, bbox = sets[1], sets[0], sets[2], sets[3]
        for (a_, b_, na, nb_) in ((full, center, "FULL", "CENTER"), (center, over, "CENTER", "OVERLAPPING"), (over, bbox, "OVERLAPPING", "OVERLAPPING_BBOX")):
            d = [h for h in a_ if h not in b_]
            if d:
                viol_.append(viol(f"modes are not nested: {na} is not within {nb_}", [ops[1], ops[0], ops[2], ops[3]], "subset", gen.hx(d[0]),
                                  key=f"nest:{na}:{kind}:{res}:{gen.hx(d[0])}"))
        for h, (c, bd, polar) in G.items():
            if polar:
                continue
            vin = [pu.pt_in_polygon(p, floops) for p in bd]
            vd = [pu.dist_pt_loops(p, floops) for p in bd]
            cin = pu.pt_in_polygon(c, floops)
            cd = pu.dist_pt_loops(c, floops)
            bdist = pu.loops_min_dist(bd, floops)
            poly_v_in_cell = any(pu.pt_in_loop(p, bd) for lp in floops for p in lp)
            pvd = min(pu.dist_pt_loops(p, [bd]) for lp in floops for p in lp)
            # the oracle treats cell edges as straight segments in lat/lng space (as the library's crossing test
            # does) while a polygon vertex is assigned to a cell on the sphere (latLngToCell): the two differ by up to
            # ~ L^2 tan(lat) / 8 for an edge of length L, which matters for coarse cells at high latitude
            eps_ = EPS if radius >= 0.3 * EDGE[res] else max(3e-12, 0.01 * radius)
            curv = max(eps_, 0.25 * EDGE[res] ** 2 * max(1.0, abs(math.tan(c[0]))))
            amb = min(vd + [cd, pvd]) < curv or (0 < bdist < curv)
            if amb:
                continue
            all_in = all(vin) and cin
            wholly = all_in and bdist > 0 and not poly_v_in_cell     # no crossing, no hole inside the cell
            shares = cin or any(vin) or poly_v_in_cell or bdist == 0.0
            if h in full and not all_in:
                nclass["full_mustnot"] += 1
                viol_.append(viol("FULL returned a cell whose centre or a boundary vertex is outside the polygon", ops[1],
                                  "centre and all vertices inside", gen.hx(h), key=f"full-onlyif:{kind}:{res}:{gen.hx(h)}"))
            if wholly:
                nclass["full_must"] += 1
                if h not in full:
                    viol_.append(viol("FULL omitted a cell lying wholly in the polygon's interior", ops[1], "returned", gen.hx(h),
                                      key=f"full-if:{kind}:{res}:{gen.hx(h)}"))
            if shares:
                nclass["over_must"] += 1
                if h not in over:
                    viol_.append(viol("OVERLAPPING omitted a cell that shares a point with the polygon", ops[2], "returned", gen.hx(h),
                                      key=f"over-if:{kind}:{res}:{gen.hx(h)}"))
            else:
                nclass["over_mustnot"] += 1
                if h in over:
                    viol_.append(viol("OVERLAPPING returned a cell disjoint from the polygon", ops[2], "not returned", gen.hx(h),
                                      key=f"over-never:{kind}:{res}:{gen.hx(h)}"))
        # decision logic: the library's own primitive predicates for each candidate cell, combined by the
        # Lean model `acceptTarget` (the subject of the nesting theorems), must reproduce the membership of the
        # cell in the library's result for all four modes
        if ctx.prep.model:
            sample = list(G.keys())
            rng.shuffle(sample)
            sample = sample[:150]
            pops = [f"polyprims {gen.hx(h)} {ps}" for h in sample]
            pout = ctx.c(pops, tag="prims")
            mops, mmeta = [], []
            for h, a in zip(sample, pout):
                if ok(a):
                    for m in (0, 1, 2, 3):
                        mops.append(f"polyaccept {m} " + " ".join(a.split()[1:9])); mmeta.append((h, m, a))
            mout = ctx.m(mops, tag="accept") if mops else []
            nprims[0] += len(mops)
            for (h, m, a), b in zip(mmeta, mout):
                member = h in sets[m]
                if b != ("ok 1" if member else "ok 0"):
                    viol_.append(viol("membership in the result differs from the per-mode decision formula applied to the "
                                      "library's own primitive predicates (decision logic / coarse pruning changed)",
                                      [ops[m], f"polyprims {gen.hx(h)} <polygon>"], f"member={b}", f"member={member} prims={a}",
                                      key=f"decision:{m}:{kind}:{res}:{gen.hx(h)}"))
        # traversal logic: the model of nextCell / iterStepPolygonCompact (H3Model/PolyIter.lean, the subject of
        # C07Iter.polyfill_exact), run over the geometry answers of the library's own predicates for every cell a
        # descending traversal can reach (polytable), must yield the cell sequence of the real compact iterator, and
        # its expansion must be the real result, for all four modes
        if ctx.prep.model and len(cand) <= 1500:
            tb = ctx.c([f"polytable {res} 0 {ps}"], tag="ptable")[0]
            if ok(tb) and len(tb) < 3000000:
                toks = " ".join(tb.split()[1:])
                cops = [f"polycompact {res} {m} {ps}" for m in (0, 1, 2, 3)]
                cout = ctx.c(cops, tag="pcompact")
                mout = ctx.m([f"polyrun {res} {m} {toks}" for m in (0, 1, 2, 3)] +
                             [f"polyrunx {res} {m} {len(sets[m])} {toks}" for m in (0, 1, 2, 3)], tag="prun")
                ntrav[0] += 8
                for m in (0, 1, 2, 3):
                    if cout[m] != mout[m]:
                        viol_.append(viol("the compact iterator's cell sequence differs from the traversal model run over the "
                                          "library's own geometry answers (nextCell / descent / pruning logic changed)",
                                          [cops[m]], mout[m][:300], cout[m][:300], key=f"traversal:{m}:{kind}:{res}"))
                    exp_cells = sorted(sets[m])
                    got = [int(x, 16) for x in mout[4 + m].split()[2:]] if ok(mout[4 + m]) else None
                    if got != exp_cells:
                        viol_.append(viol("polygonToCellsExperimental's result differs from the expansion of the traversal model",
                                          [ops[m]], f"{len(exp_cells)} cells", mout[4 + m][:300], key=f"expansion:{m}:{kind}:{res}"))
        # capacity below the count -> E_MEMORY_BOUNDS ; invalid flags -> E_OPTION_INVALID
        ops2, exp2 = [], []
        for m in (0, 1, 2, 3):
            n_ = len(sets[m])
            if n_ > 0:
                # every kind of too-small capacity: one short, a few short (inside the expansion of a coarse interior
                # cell), half, one slot, none; the driver's buffer has exactly that many slots (ASan-guarded)
                caps = {n_ - 1, n_ - 2, n_ - 3, n_ - 6, n_ - 7, n_ - 8, n_ // 2, n_ // 7, 1, 0, rng.randrange(0, n_)}
                if m in (1, 3):
                    caps = {n_ - 1, n_ - 5, rng.randrange(0, n_)}
                for c_ in sorted(c for c in caps if 0 <= c < n_):
                    ops2.append(f"polyfillx {res} {m} {c_ if c_ > 0 else -1} {ps}"); exp2.append("err 14")
        for f in (4, 5, 16, 2 ** 31):
            ops2.append(f"polyfillx {res} {f} 0 {ps}"); exp2.append("err 15")
            ops2.append(f"maxpolyfillx {res} {f} {ps}"); exp2.append("err 15")
        for o, e, a in zip(ops2, exp2, ctx.c(ops2, tag="cap")):
            if a != e:
                viol_.append(viol("capacity / flag validation of polygonToCellsExperimental", o, e, a[:100]))
        if len(viol_) >= 12:
            break
    return {"evaluations": nops, "violations": viol_[:20],
            "distinct": [f"{k}:{i}" for k, n in stats.items() for i in range(n)],
            "coverage": {"polygons": sum(stats.values()), "by_kind": stats, "skipped_size_estimate_above_harness_limit": skipped_big[0], "cell_classifications": nclass,
                         "decision_formula_evaluations": nprims[0],
                         "traversal_model_runs": ntrav[0]},
            "samples": [{"op": "polyfillx <res> <mode> 0 <polygon>", "note": "see coverage"}]}


def replay_verdict(rp, out):
    return True
