"""C12 — every API call is memory-safe and total on arbitrary arguments."""
import math
import gen
from evalutil import *

ID = "C12"
LEVEL = "proof"
MODULES = ["H3Proofs.Props.C12", "H3Proofs.Props.C04Gen", "H3Proofs.Props.C05Gen", "H3Proofs.Props.C01", "H3Proofs.Props.C01Lnz", "H3Proofs.Props.C01Rot", "H3Proofs.Props.C10Gen", "H3Proofs.Props.C13Gen", "H3Proofs.Props.C01Api"]
THEOREMS = "auto"
ASSUMPTIONS = ["undefined behaviour, stray accesses and uninitialised reads in the C text are invisible to a Lean "
               "model: the model proves the decision logic / guards / bounds of the modelled core; the real code is "
               "observed under ASan + UBSan with assertions (NEVER/ALWAYS) live and exact-size heap buffers on the "
               "generated inputs — that half is dynamic checking, not proof"]
ASSUMPTIONS.append('for the functions translated from the C text (isValidCell and helpers, the bit macros, _zeroIndexDigits, _h3LeadingNonZeroDigit, _h3Rotate60ccw/cw, _h3RotatePent60ccw/cw, isPentagon, cellToParent, cellToCenterChild, cellToChildrenSize, setH3Index, getDirectedEdgeOrigin, isValidDirectedEdge, maxFaceCount) absence of undefined shifts, signed overflow, division traps, out-of-range table reads and exhausted loop bounds on every path IS a theorem (*_defined_all in C01, C01Lnz, C01Rot, C04Gen, C05Gen, C10Gen), relative to the translator')
NOT_PROVED = ["absence of UB / out-of-bounds access in the C text (sanitizer-observed only)",
              "geometry-heavy entry points (polygonToCells*, cellsToLinkedMultiPolygon, cellToBoundary, areas) are "
              "covered by the dynamic half only"]
EXPLANATION = ("error-code range, overflow-guard range theorems, no-UB theorem for the translated isValidCell, documented "
               "codes per entry point (in the property modules); malformed stream through every exported function and "
               "through call sequences feeding outputs into the next call, model vs C on ok/err code, under sanitizers")
RULE = ("malformed indexes (random bits, 1-3 flips, wrong mode/reserved, planted 7, deleted subsequence, bc>=122), "
        "extreme ints, special doubles, malformed polygons and cell sets, through every op of the driver (all ~70 "
        "exported functions) + second-stage ops built from first-stage outputs; non-trivial = any answer")


def nontrivial(op, ans):
    return True


SPECIAL = [float("nan"), float("inf"), float("-inf"), 0.0, -0.0, 1e308, -1e308, 5e-324, 1.5707963267948966,
           -1.5707963267948966, 3.141592653589793, -3.141592653589793, 6.283185307179586, 100.0]


def idx(rng):
    return gen.hx(gen.malformed(rng) if rng.random() < 0.8 else gen.rand_cell(rng))


def anyint(rng):
    return rng.choice(gen.EXTREME_INTS + list(range(-2, 18)))


def dbl(rng):
    return f2bits(rng.choice(SPECIAL + [rng.uniform(-2, 2), rng.uniform(-7, 7)]))


def bad_polygon(rng):
    k = rng.randrange(6)
    if k == 0:
        n = rng.randrange(0, 3)
        return "1 " + str(n) + "".join(f" {dbl(rng)} {dbl(rng)}" for _ in range(n))
    if k == 1:
        n = rng.randrange(3, 7)
        return "1 " + str(n) + "".join(f" {dbl(rng)} {dbl(rng)}" for _ in range(n))
    loops, _ = gen.rand_polygon(rng, kind=rng.choice(["convex", "holes", "anti", "tiny", "needle"]))
    if k == 2:   # duplicate points / self-intersecting
        lp = loops[0]
        loops[0] = lp + [lp[0], lp[1], lp[0]]
    if k == 3:   # hole outside / huge hole
        loops.append(gen.ngon(loops[0][0][0], loops[0][0][1] + 0.5, 0.3, 4))
    if k == 4:   # pole-enclosing / huge
        loops = [gen.ngon(1.5, 0.0, 0.4, 5)]
    return gen.poly_str(loops)


def lookalike_sets(rng, n):
    """inputs for compactCells that it does not validate: complete families below many parents, some of them copies that
    differ only in bits the compaction logic does not look at (mode, high bit, digits beyond the resolution) - e.g. more
    than twelve pentagon-shaped parents, or the same family twice under different headers"""
    ops = []
    for _ in range(n):
        r = rng.randrange(1, 5)
        fams = []
        pents = rng.sample(gen.PENT, rng.randrange(1, 13)) if rng.random() < 0.7 else []
        for bc in pents:
            fams.append(gen.children(gen.mkcell(r - 1, bc, [0] * (r - 1)), r))
        for _ in range(rng.randrange(0, 4)):
            fams.append(gen.children(gen.rand_cell(rng, res=r - 1), r))
        cells = [c for f in fams for c in f]
        for _ in range(rng.randrange(1, 4)):
            f = rng.choice(fams) if fams else []
            k = rng.randrange(4)
            if k == 0:
                alt = [(c & ~(0xF << 59)) | (rng.randrange(2, 16) << 59) for c in f]     # other mode
            elif k == 1:
                alt = [c | (1 << 63) for c in f]                                          # high bit
            elif k == 2:
                alt = [c & ~(7 << (3 * rng.randrange(0, 15 - r))) for c in f]             # a digit beyond the resolution
            else:
                alt = [(c & ~(7 << 56)) for c in f]
            cells += alt
        rng.shuffle(cells)
        ops.append(f"compact {len(cells)} " + " ".join(gen.hx(c) for c in cells))
    return ops


def stage1(rng, n):
    ops = lookalike_sets(rng, max(10, n // 200))
    for _ in range(n):
        h, g = idx(rng), idx(rng)
        r = anyint(rng)
        ops += [f"valid {h}", f"misc {h}", f"parent {h} {r}", f"csize {h} {r}", f"center {h} {r}", f"cpos {h} {r}",
                f"pos2cell {rng.choice([-1, 0, 1, 5, 2 ** 62, -2 ** 62, rng.randrange(0, 10 ** 6)])} {h} {r}",
                f"ispent {h}", f"maxfaces {h}", f"faces {h}", f"c2ll {h}", f"boundary {h}", f"area {h}",
                f"nbr {h} {rng.randrange(0, 9)} {rng.randrange(0, 8)}", f"disk {h} {rng.randrange(-1, 3)}",
                f"disksafe {h} {rng.randrange(0, 3)}", f"diskunsafe {h} {rng.randrange(-2, 3)}", f"ring {h} {rng.randrange(-1, 3)}",
                f"areneighbors {h} {g}", f"edge {h} {g}", f"edgevalid {h}", f"edgeorigin {h}", f"edgedest {h}", f"edgecells {h}",
                f"edgesfrom {h}", f"edgeboundary {h}", f"edgelen {h}", f"c2v {h} {rng.randrange(-2, 8)}", f"c2vs {h}",
                f"vvalid {h}", f"v2ll {h}", f"lij {h} {g} {rng.choice([0, 0, 1, 2 ** 31])}",
                f"ij2cell {h} {anyint(rng)} {anyint(rng)} {rng.choice([0, 0, 1])}", f"dist {h} {g}", f"pathsize {h} {g}",
                f"tostr {h} {rng.randrange(0, 33)}", f"h2fijk {h}", f"rt {h}"]
        if rng.random() < 0.3:
            ops.append(f"path {h} {g}")
        if rng.random() < 0.3 and ((int(h, 16) >> 52) & 15) >= 11:
            ops.append(f"children {h} {min(15, ((int(h, 16) >> 52) & 15) + rng.randrange(0, 3))}")
        ops.append(f"ll2c {dbl(rng)} {dbl(rng)} {r}")
        ops.append(f"gcd {dbl(rng)} {dbl(rng)} {dbl(rng)} {dbl(rng)}")
        ops.append(f"numcells {r}")
        ops.append(f"pentagons {r}")
        ops.append(f"avgs {r}")
        ops.append(f"maxdisk {r}")
        ops.append(f"describe {rng.randrange(-3, 20)}")
        ops.append(f"polyflags {rng.choice([0, 1, 2, 3, 4, 15, 16, 255, 2 ** 31, 2 ** 32 - 1])}")
        cells = [idx(rng) for _ in range(rng.randrange(0, 9))]
        ops.append(f"compact {len(cells)} " + " ".join(cells))
        ops.append(f"uncompact {len(cells)} {' '.join(cells)} {rng.randrange(-1, 17)} {rng.randrange(0, 50)}")
        ops.append(f"uncompactsize {len(cells)} {' '.join(cells)} {rng.randrange(-1, 17)}")
        if rng.random() < 0.25:
            ops.append(f"multipoly {len(cells)} " + " ".join(cells))
            ops.append(f"disksunsafe {rng.randrange(-1, 3)} {len(cells)} " + " ".join(cells))
        if rng.random() < 0.3:
            bp = bad_polygon(rng)
            res = rng.choice([-1, 0, 1, 2, 3, 4, 16])
            ops.append(f"maxpolyfill {res} {rng.choice([0, 0, 1, 7])} {bp}")
            ops.append(f"maxpolyfillx {res} {rng.choice([0, 1, 2, 3, 4, 99])} {bp}")
            ops.append(f"polyfillx {res} {rng.choice([0, 1, 2, 3, 4])} {rng.choice([0, 0, 1, 5])} {bp}")
            ops.append(f"polyfill {res} 0 {bp}")
        s = [rng.randrange(1, 256) for _ in range(rng.randrange(0, 22))]
        ops.append("fromstr " + ("".join("%02x" % b for b in s) if s else "-"))
        # positions around the exact child count (out-of-range positions must give E_DOMAIN, never a cell)
        pr = rng.randrange(0, 14)
        par = gen.mkcell(pr, rng.choice(gen.PENT), [0] * pr) if rng.random() < 0.6 else gen.rand_cell(rng, res=pr)
        cr = rng.randrange(pr, 16)
        size = gen.children_size(par, cr)
        for dlt in (-1, 0, 1, 2, 7, rng.randrange(0, 60), rng.randrange(0, max(1, size // 5))):
            ops.append(f"pos2cell {size + dlt} {gen.hx(par)} {cr}")
    return ops


def stage2(ops, out, rng):
    """feed outputs of one call into the next"""
    ops2 = []
    for o, a in zip(ops, out):
        if not a.startswith("ok") or rng.random() < 0.5:
            continue
        t = o.split()
        r = a.split()
        if t[0] in ("disk", "disksafe", "diskunsafe") and len(r) > 3:
            cells = [r[i] for i in range(2, len(r), 2) if r[i] != "0"][:12]
            ops2.append(f"compact {len(cells)} " + " ".join(cells))
            ops2.append(f"multipoly {len(cells)} " + " ".join(cells))
            for c in cells[:3]:
                ops2 += [f"edge {t[1]} {c}", f"dist {c} {t[1]}", f"path {t[1]} {c}"]
        elif t[0] in ("parent", "center", "pos2cell", "ij2cell", "edgedest", "edgeorigin", "c2v", "fromstr") and len(r) == 2:
            x = r[1]
            ops2 += [f"valid {x}", f"boundary {x}", f"faces {x}", f"c2vs {x}", f"edgesfrom {x}", f"disk {x} 1", f"area {x}",
                     f"edgelen {x}", f"v2ll {x}", f"vvalid {x}", f"edgevalid {x}", f"tostr {x} 17"]
        elif t[0] in ("edgesfrom", "c2vs") and len(r) > 2:
            for x in r[2:5]:
                ops2 += [f"edgeboundary {x}", f"edgelen {x}", f"edgecells {x}", f"v2ll {x}", f"vvalid {x}", f"edgevalid {x}"]
        elif t[0] == "compact" and len(r) > 2:
            cells = [x for x in r[2:] if x != "0"][:10]
            ops2.append(f"uncompact {len(cells)} {' '.join(cells)} {rng.randrange(0, 16)} 200")
        elif t[0] == "c2ll" and len(r) == 3:
            ops2.append(f"ll2c {r[1]} {r[2]} {rng.randrange(0, 16)}")
        elif t[0] == "boundary" and len(r) > 8:
            n = int(r[1])
            ops2.append(f"polyfillx {min(15, ((int(t[1], 16) >> 52) & 15) + 1)} {rng.randrange(4)} 0 1 {n} " + " ".join(r[2:2 + 2 * n]))
            ops2.append(f"polyfill {min(15, ((int(t[1], 16) >> 52) & 15) + 1)} 0 1 {n} " + " ".join(r[2:2 + 2 * n]))
    return ops2


_S = {}


def streams(rng, tier):
    ops = stage1(rng, 400 if tier == "quick" else 6000)
    _S["ops"] = ops
    return [("malformed-all-functions", ops)]


def expected_codes(op):
    """documented code for out-of-domain scalars, where the op line alone determines it"""
    t = op.split()
    try:
        if t[0] == "parent" and not (0 <= int(t[2]) <= 15):
            return "err 4"
        if t[0] in ("numcells", "pentagons") and not (0 <= int(t[1]) <= 15):
            return "err 4"
        if t[0] == "maxdisk" and int(t[1]) < 0:
            return "err 2"
        if t[0] in ("diskunsafe",) and int(t[2]) < 0:
            return "err 2"
        if t[0] == "pos2cell" and not (0 <= int(t[3]) <= 15):
            return "err 4"
        if t[0] == "ll2c" and not (0 <= int(t[3]) <= 15):
            return "err 4"
        if t[0] == "ll2c" and (not math.isfinite(bits2f(t[1])) or not math.isfinite(bits2f(t[2]))):
            return "err 3"
        if t[0] in ("lij", "ij2cell") and int(t[-1]) != 0:
            return "err 15"
        if t[0] == "tostr" and int(t[2]) < 17:
            return "err 14"
        if t[0] == "polyflags" and int(t[1]) > 3:
            return "err 15"
        if t[0] in ("maxpolyfillx", "polyfillx") and int(t[2]) > 3 and 0 <= int(t[1]) <= 15:
            return "err 15"
        if t[0] == "c2v" and not (0 <= int(t[2]) <= 5):
            return "err 2"
        if t[0] == "pos2cell" and gen.layout_spec(int(t[2], 16)):
            par, cr, pos = int(t[2], 16), int(t[3]), int(t[1])
            if ((par >> 52) & 15) <= cr <= 15 and (pos < 0 or pos >= gen.children_size(par, cr)):
                return "err 2"
    except (ValueError, IndexError):
        return None
    return None


def evaluate(ctx, rng, tier, focus, budget, broken):
    viol_ = []
    ops = _S.get("ops") or stage1(rng, 400)
    out = ctx.c(ops, tag="eval1")
    ops2 = stage2(ops, out, rng)
    out2 = ctx.c(ops2, tag="eval2")
    allops, allout = ops + ops2, out + out2
    kinds = {}
    import re
    for o, a in zip(allops, allout):
        f = o.split()[0]
        kinds[f] = kinds.get(f, 0) + 1
        if a.startswith("abort"):
            continue   # recorded by the driver wrapper as a violation already
        m = re.match(r"^(ok|ok-unexpected|skip-too-large|err-size)( |$)|^err (\d+)( |$)", a)
        if not m or (m.group(3) and not (1 <= int(m.group(3)) <= 15)):
            viol_.append(viol("an API call returned something else than success or one of the documented error codes", o[:300], "ok / err 1..15", a[:100]))
        e = expected_codes(o)
        if e and not a.startswith(e):
            viol_.append(viol("out-of-domain scalar argument did not yield its documented error code", o[:300], e, a[:100]))
        if len(viol_) >= 20:
            break
    # model vs C on the second stage (first stage is the correspondence stream)
    dis = 0
    if ctx.prep.model and ops2:
        for o, a, b in zip(ops2, out2, ctx.m(ops2, tag="eval2m")):
            if b != "skip" and a != b and not a.startswith("abort"):
                dis += 1
                if dis <= 5:
                    viol_.append(viol("second-stage call: the real library differs from the model", o[:300], b[:200], a[:200]))
    return {"evaluations": len(allops), "violations": viol_[:20], "distinct": allops[:200000],
            "coverage": {"first_stage_ops": len(ops), "second_stage_ops": len(ops2), "ops_by_function": kinds,
                         "distinct_functions": len(kinds), "aborts": len(ctx.aborts)},
            "samples": [{"op": allops[i][:200], "c_answer": allout[i][:120]} for i in (0, len(allops) // 2, len(allops) - 1)]}


def replay_verdict(rp, out):
    return True
