"""C04 — parent/children form an exact tree partition of the cells."""
import gen
from evalutil import *

ID = "C04"
LEVEL = "proof"
MODULES = ["H3Proofs.Props.C04", "H3Proofs.Props.C04Children", "H3Proofs.Props.C04Valid", "H3Proofs.Props.C04Center", "H3Proofs.Props.C04Order", "H3Proofs.Props.C04Iter", "H3Proofs.Props.C04Gen"]
THEOREMS = "auto"
ASSUMPTIONS = ["hand-written model of cellToParent/cellToChildrenSize/cellToCenterChild/iterInitParent/"
               "iterStepChild tied to the code by the correspondence check (exact list equality, order included)"]
ASSUMPTIONS.append("the loop-faithful iterator model (iterInitParent / iterStepChild with _skipDigit and the _incrementResDigit "
                   "carry loop) is PROVED equal to the specification-level enumeration for every 64-bit parent and every child "
                   "resolution (C04Iter.cellToChildren_eq), so the C04 theorems hold of the model that is compared with C")
ASSUMPTIONS.append("cellToParent, _hasChildAtRes, cellToCenterChild, cellToChildrenSize (with _ipow(7, 0..15)) and isPentagon are translated from the C text on every run (tools/c2lean.py: out parameters as extra results, loops unrolled) and PROVED equal to the model functions, error codes and 'output untouched on error' included (C04Gen: *_eq_model, *_defined_all): these model functions are tied to the code by translation and proof, not only by correspondence")
NOT_PROVED = ["centre coincidence in radians (float) is exercised by the evaluator only"]
EXPLANATION = ("hierarchy theorems about the model (error codes, child counts, centre child) + exact "
               "correspondence of children lists with the real iterator; evaluator compares the real library "
               "with an independent python enumeration of the digit tree")


def _cells(rng, tier):
    cells = []
    for res in range(16):
        for bc in (4, 117, 38, 0, 20, 121, 5):
            cells.append(gen.mkcell(res, bc, [0] * res))               # pentagons / centre chains
            for _ in range(2):
                cells.append(gen.rand_cell(rng, res=res, bc=bc))
    return cells


def streams(rng, tier):
    maxdepth = 4 if tier == "quick" else 6
    cells = _cells(rng, tier)
    ops = []
    for h in cells:
        res = (h >> 52) & 15
        for c in range(res, min(15, res + maxdepth) + 1):
            if c - res == maxdepth and rng.random() < 0.7:
                continue
            ops.append(f"children {gen.hx(h)} {c}")
            ops.append(f"childrenS {gen.hx(h)} {c}")      # the specification-level model the theorems are about
    ops2 = []
    for h in cells + [gen.malformed(rng) for _ in range(300)]:
        for r in list(range(-1, 17)) + [rng.choice(gen.EXTREME_INTS), rng.choice(gen.EXTREME_INTS)]:
            ops2 += [f"parent {gen.hx(h)} {r}", f"csize {gen.hx(h)} {r}", f"center {gen.hx(h)} {r}"]
    ops3 = []
    for _ in range(600 if tier == "quick" else 6000):
        h = gen.malformed(rng)
        res = (h >> 52) & 15
        ops3.append(f"children {gen.hx(h)} {min(15, res + rng.randrange(0, 4))}")
        ops3.append(f"childrenS {gen.hx(h)} {min(15, res + rng.randrange(0, 4))}")
        ops3.append(f"ispent {gen.hx(h)}")
    # the first cells of the iterator at EVERY depth 0..15 (full enumeration is impossible beyond depth ~7)
    ops4 = []
    for h in cells:
        res = (h >> 52) & 15
        for c in range(res, 16):
            if c - res > maxdepth:
                ops4.append(f"iterhead {gen.hx(h)} {c} {rng.choice([3, 9, 60, 400])}")
    return [("children", ops), ("parent-size-center", ops2), ("children-malformed", ops3), ("iterator-prefix", ops4)]


def evaluate(ctx, rng, tier, focus, budget, broken):
    viol_ = []
    maxdepth = 4 if tier == "quick" else 5
    cells = _cells(rng, tier)
    for o in focus:
        t = o.split()
        if t[0] in ("children", "parent", "csize", "center"):
            h = int(t[1], 16)
            if gen.layout_spec(h):
                cells.insert(0, h)
    for _ in range(100 * budget):
        cells.append(gen.rand_cell(rng))
    ops, meta = [], []
    for h in cells:
        res = (h >> 52) & 15
        for c in range(res, 16):
            if c <= res + maxdepth:
                ops.append(f"children {gen.hx(h)} {c}"); meta.append(("children", h, c))
            # the closed forms at every depth (the enumeration above stops at maxdepth)
            ops.append(f"csize {gen.hx(h)} {c}"); meta.append(("csize", h, c))
            ops.append(f"center {gen.hx(h)} {c}"); meta.append(("center", h, c))
        for r in range(-2, 18):
            ops.append(f"parent {gen.hx(h)} {r}"); meta.append(("parent", h, r))
            ops.append(f"csize {gen.hx(h)} {r}"); meta.append(("csizeE", h, r))
            ops.append(f"center {gen.hx(h)} {r}"); meta.append(("centerE", h, r))
    for h in cells:
        res = (h >> 52) & 15
        for c in range(res + maxdepth + 1, 16):
            ops.append(f"iterhead {gen.hx(h)} {c} 60"); meta.append(("iterhead", h, c))
    out = ctx.c(ops, tag="eval")
    nchild = 0
    for o, m, a in zip(ops, meta, out):
        kind, h, c = m
        res = (h >> 52) & 15
        if kind == "children":
            exp = gen.children(h, c)
            nchild += len(exp)
            got = parse_hs(a) if ok(a) else None
            if got != exp:
                viol_.append(viol("cellToChildren differs from the digit-tree enumeration (count/order/validity/parent)",
                                  o, f"{len(exp)} cells, first {gen.hx(exp[0])}", a[:200]))
        elif kind == "iterhead":
            # first 60 children at a depth that cannot be enumerated: the first 60 digit strings of the parent
            pent = gen.is_pentagon(h)
            m = c - res
            exp = []
            for i in range(60):
                if pent:
                    # positions 0, 1.. of a pentagon: 0 -> all zero; i>=1 -> skip the deleted sub-sequence
                    ds, idx, inpent = [], i, True
                    for lvl in range(1, m + 1):
                        w = 7 ** (m - lvl)
                        if inpent:
                            pw = 1 + 5 * (w - 1) // 6
                            if idx < pw:
                                ds.append(0)
                            else:
                                idx -= pw
                                ds.append(idx // w + 2); idx %= w; inpent = False
                        else:
                            ds.append(idx // w); idx %= w
                else:
                    ds = [(i // 7 ** (m - lvl)) % 7 for lvl in range(1, m + 1)]
                _, hbc, hds = gen.fields(h)
                exp.append(gen.mkcell(c, hbc, hds[:res] + ds))
            got = parse_hs(a) if ok(a) else None
            if got != exp:
                bad = next((j for j in range(60) if got is None or j >= len(got) or got[j] != exp[j]), 0)
                viol_.append(viol("the child iterator (cellToChildren) differs from the digit-tree enumeration at a deep level",
                                  o, f"cell {bad} = {gen.hx(exp[bad])}", a[:200]))
        elif kind == "csize":
            exp = gen.children_size(h, c)
            if a != f"ok {exp}":
                viol_.append(viol("cellToChildrenSize", o, f"ok {exp}", a))
        elif kind == "center":
            _, hbc, hds = gen.fields(h)
            exp = gen.mkcell(c, hbc, hds[:res] + [0] * (c - res))
            if a != "ok " + gen.hx(exp):
                viol_.append(viol("cellToCenterChild is not the first child", o, "ok " + gen.hx(exp), a))
        elif kind == "parent":
            if c < 0 or c > 15:
                exp = "err 4"
            elif c > res:
                exp = "err 12"
            else:
                exp = "ok " + gen.hx(gen.parent(h, c))
            if a != exp:
                viol_.append(viol("cellToParent", o, exp, a))
        elif kind in ("csizeE", "centerE"):
            if c < res or c > 15:
                if a != "err 4":
                    viol_.append(viol("out-of-range child resolution must give E_RES_DOMAIN", o, "err 4", a))
        if len(viol_) >= 20:
            break
    return {"evaluations": len(ops), "violations": viol_,
            "coverage": {"cells": len(cells), "children_compared": nchild, "max_depth": maxdepth},
            "samples": [{"op": ops[i], "c_answer": out[i][:120]} for i in (0, len(ops) // 2)]}


def replay_verdict(rp, out):
    return out[0] != rp["expected"] if rp["expected"].startswith(("ok", "err")) else True
