"""C03 — cell <-> centre bijection and complete enumeration per resolution."""
import math
import gen
from evalutil import *

ID = "C03"
LEVEL = "proof"
MODULES = ["H3Proofs.Props.C03", "H3Proofs.Props.C03Enum", "H3Proofs.Props.C03Count", "H3Proofs.Props.C04Iter", "H3Proofs.Props.C03Round"]
THEOREMS = "auto"
ASSUMPTIONS = ["the centre round trip latLngToCell(cellToLatLng h) = h involves the gnomonic projection (acos, tan, "
               "atan2): it is NOT a theorem; the model answers `rt h` by the specification (ok h for valid h), so the "
               "correspondence stream is the property itself, exercised on enumerated / structured cells",
               "the integer half h3ToFaceIjk / faceIjkToH3 is modelled and compared on the same cells"]
ASSUMPTIONS.append("the loop-faithful iterator model (iterInitRes / iterStepRes) is PROVED equal to the specification-level "
                   "enumeration cellsEnumS (C04Iter.cellsEnum_eq); valid_cell_count (the values the generated isValidCell accepts at "
                   "resolution r form a duplicate-free list of 2+120*7^r) is a theorem")
ASSUMPTIONS.append("integer half of the round trip PROVED for hexagon base cells at every resolution: _faceIjkToH3 of the cell's "
                   "coordinate on its base cell's home face is the cell (C03Round.faceIjkToH3_home: digit recovery + lookup-table facts), "
                   "and _faceIjkToH3 (_h3ToFaceIjk h) = h unconditionally for the 20 face-centred base cells")
NOT_PROVED = ["centre round trip, float leg (gnomonic projection and its inverse, closest face)",
              "integer half across faces (overage adjustment onto neighbouring faces, base-cell rotations) and in pentagon base cells: "
              "compared with the model cell by cell, not proved"]
EXPLANATION = ("closed-form counts and the pentagon set are theorems over regenerated tables; the enumeration by the "
               "library's own iterator is compared with the model's; the round trip is run on all cells of the coarse "
               "resolutions, every pentagon neighbourhood, walks along all 30 icosahedron edges at every resolution")
RULE = ("all cells of res 0..2 (quick) / 0..4 (thorough); k<=2 disks of all 12 pentagons at all 16 resolutions; cells "
        "found by projecting points on both sides of the 30 icosahedron edges at every resolution; stratified random "
        "cells; non-trivial = success answer")


def model_extra_ops():
    return ["rt", "countall"]


def edge_points(ctx, rng, per_edge):
    """lat/lng points near the 30 icosahedron edges (both sides), from the face centres"""
    a = ctx.c(["facecenters"], tag="fc")[0].split()
    fc = [(bits2f(a[2 + 2 * i]), bits2f(a[3 + 2 * i])) for i in range(20)]
    vs = [ll2v(*p) for p in fc]
    edges = []
    for i in range(20):
        for j in range(i + 1, 20):
            if ang_dist_v(vs[i], vs[j]) < 0.75:       # adjacent faces: centres 0.7297 rad apart
                edges.append((i, j))
    pts = []
    for (i, j) in edges:
        mid = vnorm(vadd(vs[i], vs[j]))                # midpoint of the shared edge
        along = vnorm(vcross(vs[i], vs[j]))            # direction of the edge
        across = vnorm(vsub(vs[j], vs[i]))
        for _ in range(per_edge):
            # along the edge (half length 0.553): log-uniform distance from the midpoint, from either
            # vertex, or uniform -- lenses of mis-assigned faces can be narrow in either direction
            k = rng.randrange(3)
            if k == 0:
                t = rng.choice([1, -1]) * 10 ** rng.uniform(-4, -0.26)
            elif k == 1:
                t = rng.choice([1, -1]) * (0.5535 - 10 ** rng.uniform(-5, -0.3))
            else:
                t = rng.uniform(-0.55, 0.55)
            off = rng.choice([1, -1]) * 10 ** rng.uniform(-9, -2.5)
            p = vnorm(vadd(vadd(mid, vscale(along, t)), vscale(across, off)))
            pts.append((math.asin(max(-1, min(1, p[2]))), math.atan2(p[1], p[0])))
    return pts, len(edges)


def pent_seam_points(ctx, rng, per_seam):
    """lat/lng points next to the five icosahedron edges that meet at each of the twelve pentagon centres
    (icosahedron vertices), at log-uniform distances from the vertex (out to the rim of the base cell) and
    log-uniform offsets from the edge: the thin slivers where the pentagon's sub-hierarchies bulge across a face
    seam (leading digit in the deleted / rotated sub-sequence of that face's coordinate system)"""
    a = ctx.c(["facecenters"], tag="fc")[0].split()
    fc = [ll2v(bits2f(a[2 + 2 * i]), bits2f(a[3 + 2 * i])) for i in range(20)]
    pc = ctx.c([f"c2ll {gen.hx(gen.mkcell(0, bc, []))}" for bc in gen.PENT], tag="pc")
    pts = []
    for bc, ans in zip(gen.PENT, pc):
        t = ans.split()
        v = ll2v(bits2f(t[1]), bits2f(t[2]))
        faces = [i for i in range(20) if ang_dist_v(v, fc[i]) < 0.7]   # vertex to face centre: 0.6524 rad
        for i in faces:
            for j in faces:
                if i < j and ang_dist_v(fc[i], fc[j]) < 0.75:
                    mid = vnorm(vadd(fc[i], fc[j]))
                    along = vnorm(vsub(mid, vscale(v, vdot(mid, v))))
                    across = vnorm(vcross(v, along))
                    for _ in range(per_seam):
                        t_ = 10 ** rng.uniform(-4, -0.45)
                        off = rng.choice([1, -1]) * 10 ** rng.uniform(-9, -1.3)
                        p = vnorm(vadd(vadd(vscale(v, math.cos(t_)), vscale(along, math.sin(t_))),
                                       vscale(across, off)))
                        pts.append((math.asin(max(-1, min(1, p[2]))), math.atan2(p[1], p[0])))
    return pts


def axis_seam_points(ctx):
    """points where an icosahedron edge crosses the equator, the prime meridian or the antimeridian: a coordinate is
    ~0 (or ~pi) there while the same geometry is computed through two different face projections (relative vs
    absolute floating-point precision)"""
    a = ctx.c(["facecenters"], tag="fc")[0].split()
    fc = [(bits2f(a[2 + 2 * i]), bits2f(a[3 + 2 * i])) for i in range(20)]
    vs = [ll2v(*p) for p in fc]
    pts = []
    for i in range(20):
        for j in range(i + 1, 20):
            if ang_dist_v(vs[i], vs[j]) >= 0.75:
                continue
            mid = vnorm(vadd(vs[i], vs[j]))
            along = vnorm(vcross(vs[i], vs[j]))

            def P(t):
                p = vnorm(vadd(vscale(mid, math.cos(t)), vscale(along, math.sin(t))))
                return math.asin(max(-1, min(1, p[2]))), math.atan2(p[1], p[0])
            for f in (lambda t: P(t)[0], lambda t: P(t)[1], lambda t: math.sin(P(t)[1])):
                # roots of f on the edge (half length 0.5535), by sign changes on a grid + bisection
                N = 400
                ts = [-0.5535 + 1.107 * k / N for k in range(N + 1)]
                for k in range(N):
                    x0, x1 = ts[k], ts[k + 1]
                    y0, y1 = f(x0), f(x1)
                    if y0 == 0 or (y0 < 0) != (y1 < 0):
                        if abs(y0 - y1) > 1.0:      # longitude wrap, not a root
                            continue
                        for _ in range(60):
                            xm = 0.5 * (x0 + x1)
                            ym = f(xm)
                            if (ym < 0) == (y0 < 0):
                                x0, y0 = xm, ym
                            else:
                                x1 = xm
                        pts.append(P(0.5 * (x0 + x1)))
    return pts


def azimuth_points(ctx):
    """points due north / due south of each icosahedron face centre (the special-cased azimuths of
    _geoAzDistanceRads) where that meridian leaves the face, a few metres on either side of the face edge and a few
    1e-9..1e-7 rad off the meridian"""
    a = ctx.c(["facecenters"], tag="fc")[0].split()
    fc = [(bits2f(a[2 + 2 * i]), bits2f(a[3 + 2 * i])) for i in range(20)]
    vs = [ll2v(*p) for p in fc]

    def nearest(la, ln):
        v = ll2v(la, ln)
        return max(range(20), key=lambda i: vdot(v, vs[i]))
    pts = []
    for f, (la0, ln0) in enumerate(fc):
        for sgn in (1.0, -1.0):
            lo, hi = 0.0, 0.66
            if abs(la0 + sgn * hi) > 1.55 or nearest(la0 + sgn * hi, ln0) == f:
                continue
            for _ in range(60):
                mid = 0.5 * (lo + hi)
                if nearest(la0 + sgn * mid, ln0) == f:
                    lo = mid
                else:
                    hi = mid
            for e in (0.0, 2e-8, -2e-8, 1e-7, -1e-7, 1e-6, -1e-6, 1e-4):
                for dl in (0.0, 3e-9, -3e-9, 3e-8, -3e-8):
                    pts.append((la0 + sgn * (lo + e), ln0 + dl))
    return pts


def _cells(ctx, rng, tier):
    cells = []
    maxfull = 2 if tier == "quick" else 4
    for bc in range(122):
        base = gen.mkcell(0, bc, [])
        for r in range(0, maxfull + 1):
            cells += gen.children(base, r)
    nb = Neigh(ctx)
    for res in range(16):
        for bc in gen.PENT:
            p = gen.mkcell(res, bc, [0] * res)
            d = nb.bfs(p, 2)
            if d:
                cells += list(d.keys())
    pts, nedges = edge_points(ctx, rng, 150 if tier == "quick" else 1500)
    ops = []
    for (la, ln) in pts:
        ops.append(f"ll2c {f2bits(la)} {f2bits(ln)} {rng.randrange(16)}")
        ops.append(f"ll2c {f2bits(la)} {f2bits(ln)} {rng.choice([12, 13, 14, 15])}")
    for a in ctx.c(ops, tag="edgecells"):
        if ok(a):
            cells.append(int(a.split()[1], 16))
    # neighbourhoods of the 20 icosahedron face centres at the finest resolutions (projection degenerates there:
    # short-distance branches of the forward / inverse gnomonic code), and cells on the face-centre meridians
    a = ctx.c(["facecenters"], tag="fc")[0].split()
    ops = []
    for i in range(20):
        for r in ((15, 14, 13) if tier == "quick" else range(8, 16)):
            ops.append(f"ll2c {a[2 + 2 * i]} {a[3 + 2 * i]} {r}")
    apts = azimuth_points(ctx)
    if tier == "quick":
        apts = rng.sample(apts, min(len(apts), 100))
    ops += [f"ll2c {f2bits(la)} {f2bits(ln)} {rng.choice([15, 14, 13, 12, 11, 10])}" for la, ln in apts]
    for j, a_ in enumerate(ctx.c(ops, tag="fccells")):
        if ok(a_):
            h = int(a_.split()[1], 16)
            if j < 20 * (3 if tier == "quick" else 8):
                d = nb.bfs(h, 3 if tier == "quick" else 5)
                cells += list(d.keys()) if d else [h]
            else:
                cells.append(h)
    for _ in range(3000 if tier == "quick" else 60000):
        cells.append(gen.rand_cell(rng))
    # the twelve pentagon base cells in full down to res 4 (5 thorough): all orientations of the leading digit seen
    # from every face of the pentagon (rotation out of the deleted sub-sequence differs per face and per pentagon,
    # the two polar ones have no cw-offset faces), plus random descendants at every finer resolution
    for bc in gen.PENT:
        base = gen.mkcell(0, bc, [])
        for r in range(maxfull + 1, (4 if tier == "quick" else 5) + 1):
            cells += gen.children(base, r)
        for _ in range(1500 if tier == "quick" else 20000):
            cells.append(gen.rand_cell(rng, res=rng.randrange(5, 16), bc=bc))
    # sparse digit strings under the pentagon base cells: one non-zero digit, a (long) run of zeros, a second non-zero
    # digit.  The leading-digit helpers (_h3LeadingNonZeroDigit and the rotations keyed on it) see the first one only
    # after skipping / scanning the zeros, at every run length; random digit strings almost never contain such runs
    # (seeded change C03g: a 10-digit block test that loses the top bit of digit 1)
    rs = (6, 9, 10, 11, 12, 13, 15) if tier == "quick" else range(3, 16)
    for bc in gen.PENT:
        for res in rs:
            for d1 in range(1, 7):
                for p1 in sorted({0, 1, res // 2}):
                    for p2 in sorted({p1 + 1, res - 1, rng.randrange(p1 + 1, res)} if p1 + 1 < res else {res - 1}):
                        if p2 <= p1:
                            continue
                        for d2 in sorted({1, 5, rng.randrange(1, 7)}):
                            ds = [0] * res
                            ds[p1] = d1
                            ds[p2] = d2
                            cells.append(gen.mkcell(res, bc, gen.fix_pent(bc, ds)))
    return list(dict.fromkeys(cells)), nedges


_CACHE = {}


def streams(rng, tier):
    ops = [f"numcells {r}" for r in range(-2, 18)] + [f"pentagons {r}" for r in range(-1, 17)] + ["res0", "counts"]
    ops += [f"countall {r}" for r in range(0, 3 if tier == "quick" else 5)]
    # the specification-level enumeration (subject of cells_enum_length): children of every res-0 cell
    for bc in range(122):
        for r in range(0, 3 if tier == "quick" else 4):
            ops.append(f"childrenS {gen.hx(gen.mkcell(0, bc, []))} {r}")
    return [("counts-enumeration", ops)]


def evaluate(ctx, rng, tier, focus, budget, broken):
    cells, nedges = _cells(ctx, rng, tier)
    viol_ = []
    ops = [f"rt {gen.hx(h)}" for h in cells]
    out = ctx.c(ops, tag="eval")
    nfail = 0
    for h, o, a in zip(cells, ops, out):
        if a != "ok " + gen.hx(h):
            viol_.append(viol("latLngToCell(cellToLatLng(h)) != h", o, "ok " + gen.hx(h), a))
            if len(viol_) >= 10:
                break
    # integer half, against the model when available
    disagreements = 0
    if ctx.prep.model:
        ops2 = [f"h2fijk {gen.hx(h)}" for h in cells[::3]]
        c2 = ctx.c(ops2, tag="eval2")
        m2 = ctx.m(ops2, tag="eval2m")
        ops3 = []
        for h, a, b in zip(cells[::3], c2, m2):
            if a != b:
                disagreements += 1
                viol_.append(viol("_h3ToFaceIjk differs from the model (integer half of the round trip)", f"h2fijk {gen.hx(h)}", b, a))
            elif ok(a):
                f, i, j, k = a.split()[1:]
                ops3.append((h, f"fijk2h {f} {i} {j} {k} {(h >> 52) & 15}"))
        c3 = ctx.c([o for _, o in ops3], tag="eval3")
        for (h, o), a in zip(ops3, c3):
            if a != "ok " + gen.hx(h):
                viol_.append(viol("_faceIjkToH3(_h3ToFaceIjk(h)) != h", o, "ok " + gen.hx(h), a))
    # counts on the real library
    ops4 = [f"numcells {r}" for r in range(16)] + [f"pentagons {r}" for r in range(16)] + ["res0", "counts"] + \
           [f"countall {r}" for r in range(0, 3 if tier == "quick" else 5)]
    c4 = ctx.c(ops4, tag="eval4")
    for o, a in zip(ops4, c4):
        t = o.split()
        if t[0] == "numcells":
            exp = f"ok {2 + 120 * 7 ** int(t[1])}"
        elif t[0] == "pentagons":
            r = int(t[1])
            exp = "ok 12 " + " ".join(gen.hx(gen.mkcell(r, b, [0] * r)) for b in gen.PENT)
        elif t[0] == "res0":
            exp = "ok 122 " + " ".join(gen.hx(gen.mkcell(0, b, [])) for b in range(122))
        elif t[0] == "counts":
            exp = "ok 122 12"
        else:
            r = int(t[1])
            x = 0
            exp = f"ok {2 + 120 * 7 ** r} 12 1 1 "
            a = " ".join(a.split()[:5]) + " "
        if a != exp:
            viol_.append(viol("count / enumeration clause", o, exp, a))
    return {"evaluations": len(ops) + len(ops4), "violations": viol_[:20],
            "distinct": ops[:200000],
            "coverage": {"cells_round_tripped": len(cells), "icosahedron_edges_walked": nedges,
                         "per_resolution": {r: sum(1 for h in cells if (h >> 52) & 15 == r) for r in range(16)},
                         "pentagons": sum(1 for h in cells if gen.is_pentagon(h))},
            "samples": [{"op": ops[i], "c_answer": out[i]} for i in (0, len(ops) // 2, len(ops) - 1)]}


def replay_verdict(rp, out):
    return out[0] != rp["expected"]
