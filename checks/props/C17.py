"""C17 — allocation failure is reported cleanly and nothing leaks."""
import gen
import math
from evalutil import *

ID = "C17"
LEVEL = "proof"
MODULES = ["H3Proofs.Props.C17", "H3Proofs.Props.C17Disk", "H3Proofs.Props.C17Poly"]
THEOREMS = "auto"
ASSUMPTIONS = ["compactCells / gridDisk / areNeighborCells are modelled with their exact allocation structure "
               "(traces compared event by event, sizes included, at every failure index)",
               "polygonToCellsExperimental / maxPolygonToCellsSizeExperimental are modelled with their allocation structure "
               "(H3Model/PolyAlloc.lean: argument checks, the single calloc of the bounding boxes, the three exits that "
               "release it); what the floating-point iteration delivers (number of cells, iterator error) is a parameter "
               "of the model, universally quantified in the theorems and supplied by the real library's default-allocator "
               "run in the correspondence stream alloc-traces-polygon (traces compared event by event, failure indexes "
               "0..2, capacities below / at / above the cell count, argument errors)",
               "the legacy polygonToCells (three blocks, ten exits) is checked on the real code only (every failure "
               "index), not proved: its control flow depends on floating-point geometry throughout"]
NOT_PROVED = ["alloc_clean for the legacy polygonToCells (fault enumeration on the real code instead)"]
EXPLANATION = ("for every failure schedule and every input the compactCells model frees everything, frees nothing "
               "twice, reports an injected failure as E_MEMORY_ALLOC and is identical to the default allocator "
               "otherwise (Lean, all schedules); the same four clauses are theorems for gridDisk / areNeighborCells (C17Disk) and "
               "for polygonToCellsExperimental / maxPolygonToCellsSizeExperimental for every outcome of the geometry "
               "(C17Poly); the C traces are compared with the model's at every index; all three polygon functions are in "
               "addition enumerated at every failure index on the real library")
RULE = ("inputs x every allocation index 1..n+1 x {fail once, fail from n on}; non-trivial = a run in which an "
        "injected failure actually fired")


def nontrivial(op, ans):
    return "failed=0" not in ans


def _inputs(rng, tier):
    sets = []
    for _ in range(10 if tier == "quick" else 60):
        sets.append(gen.rand_set(rng, maxsize=400))
    # full multi-round compactions
    for res, bc in ((3, 20), (4, 4), (2, 117), (5, 38)):
        depth = rng.randrange(1, 4)
        anc = gen.mkcell(res - min(depth, res), bc, [0] * (res - min(depth, res)))
        sets.append(gen.children(anc, res))
    # error detected in a LATER round: every family below a grandparent compacts in round 1, and the grandparent then
    # has one child too many (digit 7 / the deleted sub-sequence of a pentagon) -> E_DUPLICATE_INPUT in round 2 or 3
    for res, bc, depth in ((2, 20, 2), (2, 4, 2), (3, 33, 3), (3, 117, 3), (5, 64, 2)):
        _, _, gd = gen.fields(gen.rand_cell(rng, res=res - depth, bc=bc))
        gd = gd[:res - depth] if bc not in gen.PENT_SET else [0] * (res - depth)
        tops = range(8) if bc not in gen.PENT_SET else range(7)
        cells = []
        for d1 in tops:
            for rest in ([[a] for a in range(7)] if depth == 2 else [[a, b] for a in range(7) for b in range(7)]):
                cells.append(gen.mkcell(res, bc, gd + [d1] + rest))
        sets.append(cells)
    s = list(sets[0])
    if s:
        sets.append(s + [s[0]])                    # duplicate
        sets.append(s + [gen.malformed(rng)])      # invalid
    return sets


def _disk_inputs(rng):
    out = []
    for res in (1, 2, 5, 9, 15):
        for bc in (4, 117, 58):
            p = gen.mkcell(res, bc, [0] * res)
            out.append((p, 1)); out.append((p, 2))
            ds = [0] * res; ds[-1] = 2
            out.append((gen.mkcell(res, bc, ds), 1)); out.append((gen.mkcell(res, bc, ds), 3))
        out.append((gen.rand_cell(rng, res=res, bc=20), 2))
    # error paths: invalid origins (base cell >= 122, digit 7 inside the resolution, deleted subsequence, ...)
    for _ in range(60):
        out.append((gen.malformed(rng), rng.randrange(0, 3)))
    out += [(0x81fffffffffffff, 1), (0x7fffffffffffffff, 2), (0x8908000001fffff, 1), (0, 1)]
    return out


def _polys(rng, tier):
    out = []
    # around pentagons (res-2 pentagon of base cell 4, and others) and away from them
    centres = [(1.1292280282732161, 0.18389136451249288), (0.2, 0.5), (-0.9, 2.0)]
    for c in centres:
        for kind in ("convex", "holes"):
            loops, _ = gen.rand_polygon(rng, where=c, kind=kind)
            out.append(loops)
    d = 0.12
    la, ln = centres[0]
    out.append([[(la + d, ln - d), (la + d, ln + d), (la - d, ln + d), (la - d, ln - d)]])
    # degenerate polygons: an outer loop without vertices (0, 1, 2 holes), and holes without vertices
    hole = [(0.21, 0.5), (0.2, 0.51), (0.19, 0.5)]
    out += [[[]], [[], hole], [[], hole, []], [[(0.3, 0.4), (0.3, 0.6), (0.1, 0.5)], [], hole]]
    # error paths reached after the scratch arrays exist: a hole with a non-finite vertex (after a good hole / alone),
    # a hole ring far larger than the shell (outline tracing overflows the size estimate), an infinite shell vertex
    shell = [(0.21, 0.49), (0.21, 0.51), (0.19, 0.51), (0.19, 0.49)]
    small = [(0.201, 0.499), (0.201, 0.501), (0.199, 0.5)]
    nan = float("nan")
    out += [[shell, [(0.2005, 0.4995), (0.2, nan), (0.1995, 0.5)]], [shell, small, [(0.2005, 0.4995), (nan, 0.5), (0.1995, 0.5)]],
            [shell, [(0.05, 0.2), (0.05, 0.8), (0.35, 0.8), (0.35, 0.2)]], [[(0.21, 0.49), (float("inf"), 0.51), (0.19, 0.5)]]]
    return out


def _ops(rng, tier):
    ops = []
    for s in _inputs(rng, tier):
        l = " ".join(gen.hx(c) for c in s)
        for i in range(0, 7):
            for frm in (0, 1):
                ops.append(f"acompact {i} {frm} {len(s)} {l}")
    for h, k in _disk_inputs(rng):
        for i in range(0, 3):
            for want in (0, 1):
                ops.append(f"adisk {i} 0 {gen.hx(h)} {k} {want}")
    return ops


def _pair_ops(ctx, rng):
    """neighbour pairs around pentagons that miss the sibling shortcut"""
    ops = []
    nb = Neigh(ctx)
    origins = []
    for res in (1, 2, 3, 6, 10):
        for bc in (4, 58, 117):
            ds = [0] * res; ds[-1] = rng.choice([2, 3, 4, 5, 6])
            origins.append(gen.mkcell(res, bc, ds))
            origins.append(gen.mkcell(res, bc, [0] * res))
    nb.fetch(origins)
    for o in origins:
        for n in (nb.cache[o] or []):
            for i in (0, 1, 2):
                ops.append(f"aneighbors {i} 0 {gen.hx(o)} {gen.hx(n)}")
        ops.append(f"aneighbors 1 1 {gen.hx(o)} {gen.hx(gen.rand_cell(rng, res=(o >> 52) & 15))}")
    return ops


def streams(rng, tier):
    return [("alloc-traces", _ops(rng, tier))]


def streams_ctx(ctx, rng, tier):
    """polygonToCellsExperimental / maxPolygonToCellsSizeExperimental against H3Model/PolyAlloc.lean: the op line carries
    what the real iterator did with the default allocator (number of cells, error), everything else is the model;
    traces compared event by event at failure indexes 0..2, with capacities below / at / above the cell count"""
    polys = []
    for res, loops in _end_of_order_polys(ctx):
        polys.append((res, loops))
    for loops in _polys(rng, tier):
        for res in (1, 2, 3):
            polys.append((res, loops))
    probe = []
    for res, loops in polys:
        probe.append(f"apolyfillx 0 0 {res} 0 {gen.poly_str(loops)}")
    base = ctx.c(probe, tag="apolyxs-probe")
    ops = []
    for (res, loops), a in zip(polys, base):
        ps = gen.poly_str(loops)
        head = a.split(" live=")[0].split()
        if not head or head[0] == "err-size":
            continue
        if head[0] == "ok":
            ncells, iterr = int(head[1]), 0
        else:
            ncells, iterr = 0, int(head[1])
        for flags in (0,):      # the cell count was probed for mode 0 only
            for size in sorted({0, max(ncells - 1, 0), ncells, ncells + 3}):
                for i in (0, 1, 2):
                    ops.append(f"apolyxs {i} {i % 2} {res} {flags} {size} {ncells} {iterr} {ps}")
        for i in (0, 1, 2):
            ops.append(f"amaxpolyxs {i} 0 {res} 0 {iterr} {ps}")
        # argument errors come before the allocation
        for res2, fl2 in ((16, 0), (-1, 0), (res, 4), (res, 16), (res, 7)):
            ops.append(f"apolyxs 1 0 {res2} {fl2} {ncells} {ncells} {iterr} {ps}")
            ops.append(f"amaxpolyxs 1 0 {res2} {fl2} {iterr} {ps}")
    return [("alloc-traces-polygon", ops)]


def _check(op, a, base):
    """the C17 statement on one answer line"""
    if "|" not in a:
        return "malformed answer"
    head, trace = a.split("|", 1)
    f = dict(x.split("=") for x in head.split() if "=" in x)
    res = head.split(" live=")[0].strip()
    if f.get("live") != "0":
        return "blocks left allocated"
    if f.get("badfree") != "0" or " X" in trace:
        return "a block was freed twice (or a foreign pointer freed)"
    if int(f.get("failed", "0")) > 0:
        if res != "err 13":
            return "an allocation failed but the result is not E_MEMORY_ALLOC"
    elif base is not None and res != base:
        return "no allocation failed but the result differs from the default allocator's"
    return None


def _end_of_order_polys(ctx):
    """small squares around the very first and the very last cell of the cell order (base cell 0, all digits 0; base
    cell 121, all digits 6) and around a cell next to each: the iterators end there through a different exit
    (nextCell has no successor) than everywhere else"""
    cells = []
    for res in (0, 1, 2, 3, 5):
        cells += [(res, gen.mkcell(res, 121, [6] * res)), (res, gen.mkcell(res, 0, [0] * res))]
        if res:
            cells.append((res, gen.mkcell(res, 121, [6] * (res - 1) + [5])))
    out = []
    ans = ctx.c([f"c2ll {gen.hx(c)}" for _, c in cells], tag="endcells")
    for (res, c), a in zip(cells, ans):
        if not ok(a):
            continue
        t = a.split()
        la, ln = bits2f(t[1]), bits2f(t[2])
        d = 0.25 * 0.42 / (7 ** (res / 2.0))     # well inside the cell
        for f in (1.0, 6.0):                     # within the cell / covering its neighbours too
            dd = d * f
            c_ = max(0.15, math.cos(la))
            out.append((res, [[(la + dd, gen.norm_lng(ln - dd / c_)), (la + dd, gen.norm_lng(ln + dd / c_)),
                               (la - dd, gen.norm_lng(ln + dd / c_)), (la - dd, gen.norm_lng(ln - dd / c_))]]))
    return out


def evaluate(ctx, rng, tier, focus, budget, broken):
    ops = _ops(rng, tier) + _pair_ops(ctx, rng)
    for res, loops in _end_of_order_polys(ctx):
        ps = gen.poly_str(loops)
        for i in range(0, 4):
            ops.append(f"apolyfill {i} 0 {res} 0 {ps}")
            for flags in (0, 2):
                ops.append(f"apolyfillx {i} 0 {res} {flags} {ps}")
                ops.append(f"amaxpolyfillx {i} 0 {res} {flags} {ps}")
    for loops in _polys(rng, tier):
        ps = gen.poly_str(loops)
        for res in (1, 2, 3):
            for i in range(0, 14):
                ops.append(f"apolyfill {i} 0 {res} 0 {ps}")
            for flags in (0, 1, 2, 3):
                for i in range(0, 5):
                    ops.append(f"apolyfillx {i} 0 {res} {flags} {ps}")
                    ops.append(f"amaxpolyfillx {i} 0 {res} {flags} {ps}")
            ops.append(f"apolyfillx 1 0 {res} 7 {ps}")
    ops = [o for o in focus if o.split()[0].startswith("a")] + ops
    out = ctx.c(ops, tag="eval")
    base = {}
    for o, a in zip(ops, out):
        t = o.split()
        if t[1] == "0":
            base[(t[0],) + tuple(t[3:])] = a.split(" live=")[0].strip()
    viol_ = []
    fired = 0
    fns = {}
    for o, a in zip(ops, out):
        t = o.split()
        if a.startswith("err-size"):
            continue
        why = _check(o, a, base.get((t[0],) + tuple(t[3:])))
        if "failed=0" not in a:
            fired += 1
            fns[t[0]] = fns.get(t[0], 0) + 1
        if why:
            viol_.append(viol(why, o, "E_MEMORY_ALLOC iff a failure fired; live=0; no double free",
                              a[:300], key=f"{t[0]}:{t[1]}:{t[2]}:" + ":".join(t[3:6])))
            if len(viol_) >= 20:
                break
    return {"evaluations": len(ops), "violations": viol_, "distinct": [o for o, a in zip(ops, out) if "failed=0" not in a],
            "coverage": {"runs": len(ops), "runs_with_injected_failure": fired, "per_function": fns},
            "samples": [{"op": ops[i][:160], "c_answer": out[i][:200]} for i in (1, len(ops) // 2, len(ops) - 1)]}


def replay_verdict(rp, out):
    return _check(rp["ops"][0], out[0], None) is not None
