"""C20 — string form of an index round-trips exactly."""
import re
import gen

ID = "C20"
LEVEL = "proof"
MODULES = ["H3Proofs.Props.C20"]
THEOREMS = ["H3.C20.string_roundtrip", "H3.C20.toHex_length", "H3.C20.toHex_chars",
            "H3.C20.toHex_no_leading_zero", "H3.C20.h3ToString_small_buffer",
            "H3.C20.h3ToString_fits", "H3.C20.stringToH3_not_hex"]
ASSUMPTIONS = ["libc sprintf(\"%lx\") / sscanf(\"%lx\") are modelled (H3Model/Str.lean); the model is what "
               "the differential run validates, through the real h3ToString / stringToH3"]
EXPLANATION = ("round trip, digit alphabet, length, padding, buffer guard and rejection of non-hex text are "
               "theorems about the model for all 2^64 values / all byte strings; the model is compared with the "
               "real functions on structured values, all buffer sizes 0..32 and all 1- and 2-byte strings")
RULE = ("values: every single-bit value, every leading-zero length, all-F prefixes, valid cells, random; buffer "
        "sizes 0..32; strings: all 1- and 2-byte strings (bytes 1..255), signs/prefixes/white space/overlong "
        "runs; non-trivial = success answer")


def enc(bs):
    return "".join("%02x" % b for b in bs) if bs else "-"


def _values(rng, tier):
    vals = [0, 1, (1 << 64) - 1]
    for b in range(64):
        vals += [1 << b, (1 << b) - 1, ((1 << 64) - 1) >> b, ((1 << 64) - 1) << b & ((1 << 64) - 1)]
    for k in range(17):
        vals.append(rng.getrandbits(4 * k) if k else 0)
    n = 2000 if tier == "quick" else 50000
    for _ in range(n):
        vals.append(gen.rand_cell(rng))
        vals.append(rng.getrandbits(64))
        vals.append(rng.getrandbits(64) & rng.getrandbits(64) & rng.getrandbits(64))
    return vals


def _strings(rng, tier):
    out = []
    for a in range(1, 256):
        out.append([a])
    for a in range(1, 256):
        for b in range(1, 256):
            out.append([a, b])
    hexd = b"0123456789abcdefABCDEF"
    pre = [b"", b" ", b"\t\n", b"\v\f\r ", b"+", b"-", b" -", b"0x", b"0X", b"-0x", b"+0X", b"0", b"00", b"x", b"0xg"]
    n = 20000 if tier == "quick" else 300000
    for _ in range(n):
        s = bytes(rng.choice(pre))
        k = rng.choice([0, 1, 2, 5, 15, 16, 17, 20, 33])
        s += bytes(rng.choice(hexd) for _ in range(k))
        if rng.random() < 0.5:
            s += bytes(rng.randrange(1, 256) for _ in range(rng.randrange(4)))
        out.append(list(s)[:40])
    for _ in range(n // 4):
        out.append([rng.randrange(1, 256) for _ in range(rng.randrange(0, 21))])
    out.append([])
    return out


def streams(rng, tier):
    vals = _values(rng, tier)
    ops = []
    for h in vals:
        ops.append(f"tostr {gen.hx(h)} 17")
    for h in vals[:400]:
        for sz in range(0, 33):
            ops.append(f"tostr {gen.hx(h)} {sz}")
    ops2 = ["fromstr " + enc(list(format(h, "x").encode())) for h in vals]
    ops3 = ["fromstr " + enc(s) for s in _strings(rng, tier)]
    return [("h3ToString", ops), ("roundtrip-parse", ops2), ("parse-arbitrary", ops3)]


WS = b" \t\n\v\f\r"


def starts_with_hex_number(bs):
    i = 0
    while i < len(bs) and bs[i] in WS:
        i += 1
    if i < len(bs) and bs[i] in b"+-":
        i += 1
    return i < len(bs) and bs[i] in b"0123456789abcdefABCDEF"


def evaluate(ctx, rng, tier, focus, budget, broken):
    vals = _values(rng, tier)
    viol = []
    ops, exp = [], []
    for o in focus:
        if o.startswith("tostr "):
            vals.append(int(o.split()[1], 16))
    for h in vals:
        txt = format(h, "x")
        ops.append(f"tostr {gen.hx(h)} 17"); exp.append("ok " + enc(list(txt.encode()) + [0]))
        ops.append("fromstr " + enc(list(txt.encode()))); exp.append("ok " + txt)
    for h in vals[:300 * budget]:
        for sz in range(0, 33):
            ops.append(f"tostr {gen.hx(h)} {sz}")
            exp.append("err 14" if sz < 17 else "ok " + enc(list(format(h, "x").encode()) + [0]))
    strs = _strings(rng, tier)
    for o in focus:
        if o.startswith("fromstr "):
            a = o.split()[1]
            strs.append([] if a == "-" else list(bytes.fromhex(a)))
    nrej = 0
    for s in strs:
        if not starts_with_hex_number(bytes(s)):
            ops.append("fromstr " + enc(s)); exp.append("err 1"); nrej += 1
    out = ctx.c(ops, tag="eval")
    for o, e, a in zip(ops, exp, out):
        if a != e:
            viol.append({"what": "string form: " + ("round trip / format" if o.startswith("tostr") or e.startswith("ok")
                                                     else "non-hex text not rejected"),
                         "ops": [o], "expected": e, "observed": a, "key": o.replace(" ", ":")})
            if len(viol) >= 20:
                break
    # history independence: a valid string parses to its value whatever was parsed before it in the same process
    # (texts that overflow 64 bits, non-numbers, empty strings: anything that leaves state behind in libc)
    upset = [b"10000000000000000", b"ffffffffffffffffffffffffffffffff", b"zz", b"", b"-1", b"0x", b"1e999"]
    nseq = 0
    for u in upset:
        seq = ["fromstr " + enc(list(u))]
        want = [None]
        for h in rng.sample(vals, min(12, len(vals))):
            seq.append("fromstr " + enc(list(format(h, "x").encode()))); want.append("ok " + format(h, "x"))
        got = ctx.c(seq, tag="eval_seq")
        nseq += 1
        for j in range(1, len(seq)):
            if got[j] != want[j]:
                viol.append({"what": "stringToH3 of a valid string depends on what was parsed before it", "ops": [seq[0], seq[j]],
                             "expected": want[j], "observed": got[j], "key": "history:" + seq[j].replace(" ", ":")})
                break
    return {"evaluations": len(ops), "violations": viol,
            "coverage": {"values": len(vals), "rejected_strings": nrej, "history_sequences": nseq},
            "samples": [{"op": ops[i], "c_answer": out[i]} for i in (1, len(ops) // 2, len(ops) - 1)]}


def replay_verdict(rp, out):
    return out[-1] != rp["expected"]
