"""C07 — polygonToCells returns exactly the cells whose centre is inside the polygon."""
import math
import gen, polyutil as pu
from evalutil import *

ID = "C07"
LEVEL = "proof"
MODULES = ["H3Proofs.Props.C07", "H3Proofs.Props.C07Iter"]
THEOREMS = "auto"
TECHNIQUE = ("Lean 4 theorems about a model of the hierarchical algorithm's traversal (nextCell, iterStepPolygonCompact, "
             "expansion): iterator loop = recursive descent over the cell tree; relative to the two bounding-box pruning "
             "assumptions the result is exactly the valid cells of the resolution accepted by the mode's predicate, each "
             "once, in index order (C07Iter.polyfill_exact) + model/code correspondence of the traversal (run in the C15 "
             "check); the geometric half (centre inside the polygon, both algorithms, size bounds) is decided by a "
             "differential run against an independent point-in-polygon oracle over a covering set of candidate cells")
ASSUMPTIONS = ["cell centres (cellToLatLng) and the bounding-box pruning of the hierarchical algorithm are floating "
               "point geometry: not proved; candidate cells come from gridDisk around the polygon (proved/checked in C05)",
               "cells whose centre is within 1e-9 rad of the polygon boundary are ambiguous and skipped by the oracle"]
NOT_PROVED = ["that the library's floating-point predicates mean 'centre inside the polygon' and prune soundly (geometry); "
              "the legacy algorithm (edge tracing + flood fill) is not modelled: soundness/completeness by the differential run only",
              "maxPolygonToCellsSize / maxPolygonToCellsSizeExperimental >= number of cells"]
EXPLANATION = ("traversal exactness theorem relative to an abstract geometry (hierarchical algorithm); generated well-formed polygons (convex, concave, needle, tiny, holes, antimeridian, near pentagons) x "
               "resolutions; both algorithms compared with the oracle, with each other, and with their size bounds")
EDGE = [0.19, 0.072, 0.027, 0.0103, 0.0039, 0.00147, 0.00056, 0.00021, 8e-5, 3e-5, 1.1e-5, 4.3e-6, 1.6e-6, 6e-7, 2.3e-7, 8.8e-8]


def _cases(rng, tier):
    out = []
    n = 40 if tier == "quick" else 600
    kinds = ["convex", "concave", "needle", "holes", "anti", "tiny", "anti-needle"]
    wheres = [None, None, None, (1.1292280282732161, 0.18389136451249288), (0.4528, 0.0553), (-1.0, 2.9)]
    for k in range(n):
        kind = kinds[k % len(kinds)]
        loops, (lat, lng, radius) = gen.rand_polygon(rng, where=rng.choice(wheres), kind=kind)
        # resolution such that the polygon spans 1..25 cell edges
        cand = [r for r in range(16) if 0.5 <= radius / EDGE[r] <= 25]
        if kind == "tiny":
            cand = [r for r in range(16) if 0.02 <= radius / EDGE[r] <= 3] or [15]
        res = rng.choice(cand) if cand else 15
        out.append((loops, lat, lng, radius, res, kind))
    # needle-thin polygons across the antimeridian (edge tracing of the legacy algorithm, F2)
    for _ in range(24 if tier == "quick" else 300):
        loops, (lat, lng, radius) = gen.rand_polygon(rng, kind="anti-needle")
        cand = [r for r in range(16) if 1.5 <= radius / EDGE[r] <= 25]
        out.append((loops, lat, lng, radius, rng.choice(cand) if cand else 15, "anti-needle"))
    # two far-apart holes (hole-index mixups need >= 2 holes)
    for _ in range(4 if tier == "quick" else 40):
        lat, lng = rng.uniform(-1, 1), rng.uniform(-3, 3)
        R = 0.08
        outer = gen.ngon(lat, lng, R, 4, None, phase=math.pi / 4)
        h1 = gen.ngon(lat + 0.4 * R, lng - 0.4 * R / math.cos(lat), 0.07 * R, 4, None)
        h2 = gen.ngon(lat - 0.4 * R, lng + 0.4 * R / math.cos(lat), 0.07 * R, 4, None)
        loops = [[(a, gen.norm_lng(b)) for a, b in lp] for lp in (outer, h1, h2)]
        out.append((loops, lat, lng, R, rng.choice([3, 4]), "two-holes"))
    # polygons a few to twenty cells across at resolutions 13-15 (edges of metres to centimetres), few and many vertices
    for k in range(9 if tier == "quick" else 90):
        res = (13, 14, 15)[k % 3]
        lat, lng = rng.uniform(-1.2, 1.2), rng.uniform(-3.0, 3.0)
        R = rng.choice([rng.uniform(4, 16), rng.uniform(20, 50)]) * EDGE[res]
        nv = rng.choice([3, 4, 7, 60])
        outer = gen.ngon(lat, lng, R, nv, rng, jitter=0.15 if nv < 60 else 0.0, phase=rng.uniform(0, 1))
        out.append(([[(a_, gen.norm_lng(b_)) for a_, b_ in outer]], lat, lng, R, res, "small-fine"))
    # holes that nearly wall off part of the interior: a C-shaped hole (square ring with a slit narrower than a cell)
    # around a pocket that belongs to the polygon; the pocket is connected to the rest only through the slit
    for k in range(4 if tier == "quick" else 40):
        lat, lng = rng.uniform(-1.1, 1.1), rng.uniform(-3.0, 3.0)
        res = rng.choice([5, 7, 9, 11])
        u = 1.8 * EDGE[res]                       # about one cell spacing
        cl = math.cos(lat)
        P = lambda x, y: (lat + y * u, gen.norm_lng(lng + x * u / cl))
        A, B, sl = 7.0, 3.5, rng.choice([0.02, 0.2, 0.6])
        side = k % 4
        ring = [(-A, -A), (A, -A), (A, -sl), (B, -sl), (B, -B), (-B, -B), (-B, B), (B, B), (B, sl), (A, sl), (A, A), (-A, A)]
        rot = {0: lambda x, y: (x, y), 1: lambda x, y: (-y, x), 2: lambda x, y: (-x, -y), 3: lambda x, y: (y, -x)}[side]
        hole = [P(*rot(x, y)) for x, y in ring]
        outer = [P(-10, -10), P(10, -10), P(10, 10), P(-10, 10)]
        out.append(([outer, hole], lat, lng, 10.5 * u, res, "pocket-hole"))
    # very large / very wide polygons (continental bands, more than a hemisphere of longitude, both sides of the
    # prime meridian, across the antimeridian): candidates are ALL cells of a coarse resolution
    for k in range(35 if tier == "quick" else 210):
        lat0 = rng.uniform(-1.0, 0.7)
        lat1 = lat0 + rng.uniform(0.15, 0.5)
        mode = k % 7
        if mode >= 5:      # more than a hemisphere of longitude (180..340 degrees), anywhere, either representation
            w = rng.uniform(math.pi + 0.2, 2 * math.pi - 0.35)
            a = rng.uniform(-math.pi, math.pi) if mode == 5 else rng.uniform(0.05, math.pi - 0.05)
            b = a + w
            if mode == 5 and b > math.pi:      # keep it representable without crossing: shift into [-pi, pi]
                a, b = -w / 2 + rng.uniform(-0.15, 0.15), w / 2 + rng.uniform(-0.15, 0.15)
                a, b = max(a, -math.pi + 0.01), min(b, math.pi - 0.01)
        elif mode == 0:      # starts west of the prime meridian, runs east to just before 180E
            a, b = -rng.uniform(0.1, 0.9), math.pi - rng.uniform(0.01, 0.3)
        elif mode == 1:    # starts just east of the prime meridian, crosses the antimeridian, ends in the west
            a, b = rng.uniform(0.02, 0.6), math.pi + rng.uniform(0.3, 2.0)
        elif mode == 2:    # mirror image of mode 0
            a, b = -math.pi + rng.uniform(0.01, 0.3), rng.uniform(0.1, 0.9)
        elif mode == 3:    # ordinary wide band inside one hemisphere or across 0
            a = rng.uniform(-3.0, 0.5); b = a + rng.uniform(0.8, 2.5)
        else:              # across the antimeridian, moderate width
            a = math.pi - rng.uniform(0.1, 1.2); b = math.pi + rng.uniform(0.1, 1.2)
        nseg = max(2, int((b - a) / 0.6) + 1)
        top = [(lat1 + rng.uniform(-0.03, 0.03), a + (b - a) * i / nseg) for i in range(nseg + 1)]
        bot = [(lat0 + rng.uniform(-0.03, 0.03), a + (b - a) * i / nseg) for i in range(nseg + 1)]
        outer = bot + top[::-1]
        loops = [[(la, gen.norm_lng(ln)) for la, ln in outer]]
        res = rng.choice([0, 1, 2, 2] if tier == "quick" else [0, 1, 2, 3])
        out.append((loops, 0.5 * (lat0 + lat1), gen.norm_lng(0.5 * (a + b)), 0.5 * (b - a), res, "wide-%d" % mode))
    for k in range(4 if tier == "quick" else 40):
        lat, lng = rng.uniform(-0.9, 0.9), rng.uniform(-3.1, 3.1)
        R = rng.uniform(0.15, 0.5)
        outer = gen.ngon(lat, lng, R, rng.randrange(5, 10), rng, jitter=0.3, phase=rng.uniform(0, 1))
        loops = [[(a_, gen.norm_lng(b_)) for a_, b_ in outer]]
        out.append((loops, lat, lng, R, rng.choice([0, 1, 2]), "large"))
    return out


def deep_pent_cases(ctx, rng, tier):
    """small polygons around deep cells of pentagon base cells whose digit string is <short prefix> <long run of 0> <d>:
    their parents look like pentagons to anything that inspects only part of the digit string, and the child with d = 1
    is the one a pentagon parent does not have (nextCell's sibling stepping, isPentagon on fine parents)"""
    out = []
    n = 14 if tier == "quick" else 120
    cells = []
    for k in range(n):
        res = rng.choice([11, 12, 12, 13, 14, 15])
        zeros = rng.randrange(max(6, res - 4), res - 1)
        pre = res - 1 - zeros
        prefix = [rng.choice([2, 3, 4, 5, 6])] + [rng.randrange(0, 7) for _ in range(pre - 1)] if pre > 0 else []
        last = 1 if k % 3 != 2 else rng.randrange(0, 7)
        ds = prefix + [0] * zeros + [last]
        if not prefix and last == 1:
            ds[-1] = 2
        cells.append(gen.mkcell(res, rng.choice(gen.PENT), ds))
    ans = ctx.c([f"c2ll {gen.hx(c)}" for c in cells], tag="deeppent")
    for c, a in zip(cells, ans):
        if not ok(a) or not gen.layout_spec(c):
            continue
        res = (c >> 52) & 15
        la, ln = bits2f(a.split()[1]), bits2f(a.split()[2])
        if abs(la) > 1.4:
            continue
        R = rng.uniform(2.5, 5.0) * EDGE[res]
        outer = gen.ngon(la, ln, R, rng.choice([4, 5, 7]), rng, jitter=0.1, phase=rng.uniform(0, 1))
        out.append(([[(a_, gen.norm_lng(b_)) for a_, b_ in outer]], la, ln, R, res, "small-fine"))
    return out


_ALL = {}


def all_cells(ctx, res):
    if res not in _ALL:
        cells = []
        for a in ctx.c([f"children {gen.hx(gen.mkcell(0, bc, []))} {res}" for bc in range(122)], tag="allcells"):
            cells += [int(x, 16) for x in a.split()[2:]] if ok(a) else []
        _ALL[res] = cells
    return _ALL[res]


def streams(rng, tier):
    return []


def candidates(ctx, lat, lng, radius, res, nb):
    a = ctx.c([f"ll2c {f2bits(lat)} {f2bits(gen.norm_lng(lng))} {res}"], tag="cand")[0]
    if not ok(a):
        return None
    k = int(radius * 1.6 / EDGE[res]) + 3
    if k > (45 if nb is None else nb):
        return None
    d = ctx.c([f"disk {a.split()[1]} {k}"], tag="cand2")[0]
    if not ok(d):
        return None
    return [h for h, _ in parse_pairs(d) if h]


def evaluate(ctx, rng, tier, focus, budget, broken):
    viol_ = []
    cases = _cases(rng, tier) + deep_pent_cases(ctx, rng, tier)
    stats = {}
    skipped = {}
    ncells = 0
    nops = 0
    for (loops, lat, lng, radius, res, kind) in cases:
        ps = gen.poly_str(loops)
        if kind.startswith("wide") or kind == "large":
            cand = all_cells(ctx, res)
        else:
            cand = candidates(ctx, lat, lng, radius, res, 90 if kind == "small-fine" else None)
        if cand is None:
            skipped[kind] = skipped.get(kind, 0) + 1
            continue
        cl = ctx.c([f"c2ll {gen.hx(h)}" for h in cand], tag="centres")
        floops, fix = pu.frame(loops)
        expect, ambiguous = set(), set()
        for h, a in zip(cand, cl):
            if not ok(a):
                continue
            p = (bits2f(a.split()[1]), fix(bits2f(a.split()[2])))
            if pu.dist_pt_loops(p, floops) < 1e-9:
                ambiguous.add(h)
            elif pu.pt_in_polygon(p, floops):
                expect.add(h)
        ops = [f"polyfill {res} 0 {ps}", f"polyfillx {res} 0 0 {ps}"]
        out = ctx.c(ops, tag="fill")
        nops += 2 + len(cand)
        stats[kind] = stats.get(kind, 0) + 1
        ncells += len(expect)
        cs = set(cand)
        got = []
        for name, o, a in (("polygonToCells", ops[0], out[0]), ("polygonToCellsExperimental", ops[1], out[1])):
            if not ok(a):
                viol_.append(viol(f"{name} failed on a well-formed polygon", o, "success", a, key=f"{name}:{kind}:{res}"))
                got.append(None)
                continue
            t = a.split()
            size = int(t[1])
            cells = [int(x, 16) for x in t[3:3 + int(t[2])]]
            got.append(set(cells))
            if len(set(cells)) != len(cells):
                viol_.append(viol(f"{name} returned duplicates", o, "no duplicates", a[:200]))
            if len(cells) > size:
                viol_.append(viol(f"{name} result does not fit the announced size", o, f"<= {size}", len(cells)))
            s = set(cells)
            missing = [h for h in expect if h not in s]
            extra = [h for h in s if h not in expect and h not in ambiguous and (h in cs)]
            outside = [h for h in s if h not in cs]
            if missing or extra or outside:
                viol_.append(viol(f"{name} differs from the set of cells whose centre is inside the polygon", o,
                                  f"{len(expect)} cells (+{len(ambiguous)} ambiguous)",
                                  f"missing {[gen.hx(h) for h in missing[:4]]} extra {[gen.hx(h) for h in (extra + outside)[:4]]}",
                                  key=f"{name}:{kind}:{res}:{gen.hx((missing + extra + outside)[0])}"))
        if len(viol_) >= 12:
            break
    return {"evaluations": nops, "violations": viol_[:20],
            "distinct": [f"{k}:{i}" for k, n in stats.items() for i in range(n)],
            "coverage": {"polygons": sum(stats.values()), "by_kind": stats, "skipped_no_candidate_set": skipped, "cells_expected_inside": ncells},
            "samples": [{"op": "polyfill <res> 0 <polygon>", "note": "see coverage"}]}


def replay_verdict(rp, out):
    return True
