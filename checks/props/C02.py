"""C02 — latLngToCell returns the cell whose boundary contains the point."""
import math
import gen
from evalutil import *
from props.C03 import edge_points, pent_seam_points

ID = "C02"
LEVEL = "other"
MODULES = ["H3Proofs.Props.C02", "H3Proofs.Props.C02Hex", "H3Proofs.Props.C02Valid"]
THEOREMS = "auto"
TECHNIQUE = ("Lean 4 theorems for argument validation and the planar rounding logic + bit-exact correspondence of "
             "_hex2dToCoordIJK/_faceIjkToH3; the geometric containment clause is a differential run (not a proof)")
ASSUMPTIONS = ["_geoToClosestFace / _geoToHex2d (acos, tan, atan2) are outside the model: the containment clause is "
               "evaluated on the real library exactly as the property words it (gnomonic chart centred on the "
               "returned cell, tolerance max(2e-12, 4e-15/cos lat)); this is bounded differential testing"]
ASSUMPTIONS.append("whatever _faceIjkToH3 returns other than H3_NULL is PROVED to be a valid cell of the requested resolution "
                   "(C02Valid.faceIjkToH3_valid, all face coordinates): the clause 'success yields a valid cell of that resolution' does "
                   "not depend on the floating-point projection")
NOT_PROVED = ["containment of the point in the returned cell's boundary (gnomonic projection: transcendental floats)",
              "that latLngToCell succeeds for every finite input (that _geoToFaceIjk always lands within the lookup range)"]
EXPLANATION = ("argument validation is a theorem; _hex2dToCoordIJK (Float instance of the generic code proved over "
               "exact arithmetic) and _faceIjkToH3 are compared bit-exactly with C; containment is evaluated on "
               "points 1e-1..1e-12 cell widths from cell edges/corners, along all icosahedron edges, around "
               "pentagons, at the poles and the antimeridian")
RULE = ("points near edges/corners of random cells at all resolutions (offset fractions 1e-1..1e-12), near the 30 "
        "icosahedron edges (log-uniform offsets), the 60 face seams that meet at the pentagon centres (log-uniform "
        "distance and offset), pentagon vertices, poles, antimeridian, arbitrary finite doubles; "
        "non-trivial = success answer")


def gnomonic(c, p):
    """project unit vector p on the plane tangent at unit vector c (2-D coordinates)"""
    d = vdot(c, p)
    # basis
    a = (0.0, 0.0, 1.0) if abs(c[2]) < 0.9 else (1.0, 0.0, 0.0)
    e1 = vnorm(vcross(a, c))
    e2 = vcross(c, e1)
    q = vscale(p, 1.0 / d)
    return (vdot(q, e1), vdot(q, e2))


def contains(centre, boundary, p, tol):
    """point-in-polygon in the gnomonic chart centred on `centre`; accepts points within tol of the boundary"""
    c = ll2v(*centre)
    pv = ll2v(*p)
    if vdot(c, pv) <= 0.2:
        return False, 9.0
    P = gnomonic(c, pv)
    poly = [gnomonic(c, ll2v(*b)) for b in boundary]
    n = len(poly)
    inside = False
    dmin = 1e9
    for i in range(n):
        x1, y1 = poly[i]
        x2, y2 = poly[(i + 1) % n]
        if (y1 > P[1]) != (y2 > P[1]):
            xs = x1 + (P[1] - y1) * (x2 - x1) / (y2 - y1)
            if P[0] < xs:
                inside = not inside
        # distance to segment
        dx, dy = x2 - x1, y2 - y1
        L = dx * dx + dy * dy
        t = 0.0 if L == 0 else max(0.0, min(1.0, ((P[0] - x1) * dx + (P[1] - y1) * dy) / L))
        d = math.hypot(P[0] - (x1 + t * dx), P[1] - (y1 + t * dy))
        dmin = min(dmin, d)
    return (inside or dmin <= tol * 1.5), (0.0 if inside else dmin)


def _points(ctx, rng, tier):
    """(lat, lng, res, tag)"""
    pts = []
    n = 1200 if tier == "quick" else 20000
    cells = [gen.rand_cell(rng) for _ in range(n)]
    for res in range(16):
        for bc in gen.PENT:
            cells.append(gen.mkcell(res, bc, [0] * res))
    # cells close to the 20 face centres at fine resolutions (precision of the radial distance there)
    fa = ctx.c(["facecenters"], tag="fc")[0].split()
    fops = []
    for f in range(20):
        fla, fln = bits2f(fa[2 + 2 * f]), bits2f(fa[3 + 2 * f])
        for _ in range(12 if tier == "quick" else 120):
            d = 10 ** rng.uniform(-9, -4)
            ang = rng.uniform(0, 2 * math.pi)
            fops.append(f"ll2c {f2bits(fla + d * math.sin(ang))} {f2bits(fln + d * math.cos(ang) / math.cos(fla))} {rng.choice([12, 13, 14, 15])}")
    for a in ctx.c(fops, tag="fcells"):
        if ok(a):
            cells.append(int(a.split()[1], 16))
    ops = []
    for h in cells:
        ops += [f"boundary {gen.hx(h)}", f"c2ll {gen.hx(h)}"]
    out = ctx.c(ops, tag="pts")
    for k, h in enumerate(cells):
        ab, ac = out[2 * k], out[2 * k + 1]
        if not (ok(ab) and ok(ac)):
            continue
        bd = parse_boundary(ab)
        t = ac.split()
        c = ll2v(bits2f(t[1]), bits2f(t[2]))
        res = (h >> 52) & 15
        vs = [ll2v(*b) for b in bd]
        for _ in range(4):
            i = rng.randrange(len(vs))
            a, b = vs[i], vs[(i + 1) % len(vs)]
            s = rng.choice([0.0, 1e-9, 0.5, rng.random()])
            e = vnorm(vadd(vscale(a, 1 - s), vscale(b, s)))
            f = rng.choice([1, -1]) * 10 ** rng.uniform(-12, -1)
            p = vnorm(vadd(e, vscale(vsub(c, e), f)))
            pts.append((math.asin(max(-1, min(1, p[2]))), math.atan2(p[1], p[0]), res, "cell-edge"))
        pts.append((bits2f(t[1]), bits2f(t[2]), res, "centre"))
    ep, _ = edge_points(ctx, rng, 120 if tier == "quick" else 1500)
    for (la, ln) in ep:
        pts.append((la, ln, rng.randrange(16), "icosa-edge"))
        pts.append((la, ln, rng.choice([13, 14, 15]), "icosa-edge"))
    for (la, ln) in pent_seam_points(ctx, rng, 120 if tier == "quick" else 1500):
        pts.append((la, ln, rng.randrange(16), "pentagon-seam"))
    for _ in range(300):
        pts.append((rng.choice([1, -1]) * (math.pi / 2 - 10 ** rng.uniform(-12, -2)), rng.uniform(-math.pi, math.pi), rng.randrange(16), "pole"))
        pts.append((rng.uniform(-1.5, 1.5), rng.choice([1, -1]) * (math.pi - 10 ** rng.uniform(-14, -3)), rng.randrange(16), "antimeridian"))
        pts.append((rng.uniform(-1.5, 1.5), rng.uniform(-2 * math.pi, 2 * math.pi), rng.randrange(16), "wide-lng"))
    # near the 20 face centres (where acos(1 - sqd/2) used to lose precision) at fine resolutions
    a = ctx.c(["facecenters"], tag="fc")[0].split()
    for f in range(20):
        fla, fln = bits2f(a[2 + 2 * f]), bits2f(a[3 + 2 * f])
        for _ in range(40 if tier == "quick" else 400):
            d = 10 ** rng.uniform(-9, -3)
            ang = rng.uniform(0, 2 * math.pi)
            pts.append((fla + d * math.sin(ang), fln + d * math.cos(ang) / math.cos(fla), rng.choice([11, 12, 13, 14, 15]), "face-centre"))
    pts += [(math.pi / 2, 0.0, r, "pole") for r in range(16)] + [(-math.pi / 2, 1.0, r, "pole") for r in range(16)]
    return pts


def streams(rng, tier):
    ops = []
    n = 20000 if tier == "quick" else 300000
    for _ in range(n):
        k = rng.randrange(5)
        if k == 0:
            x, y = rng.uniform(-5, 5), rng.uniform(-5, 5)
        elif k == 1:
            x, y = rng.uniform(-4.7e6, 4.7e6), rng.uniform(-4.7e6, 4.7e6)
        elif k == 2:
            i, j = rng.randrange(-50, 50), rng.randrange(-50, 50)
            cx, cy = i - 0.5 * j, j * math.sqrt(3) / 2
            ang = rng.randrange(12) * math.pi / 6
            r = rng.choice([1 / math.sqrt(3), 0.5]) * (1 + rng.choice([1, -1]) * 10 ** rng.uniform(-14, -1))
            x, y = cx + r * math.cos(ang), cy + r * math.sin(ang)
        elif k == 3:
            x, y = rng.randrange(-8, 8) / rng.choice([1, 2, 3, 4, 6, 8]), rng.randrange(-8, 8) / rng.choice([1, 2, 4, 8])
        else:
            x, y = rng.uniform(-1e-3, 1e-3), rng.uniform(-1e-3, 1e-3)
        ops.append(f"hex2d {f2bits(x)} {f2bits(y)}")
    ops2 = []
    specials = [float("nan"), float("inf"), float("-inf"), 0.0, -0.0, 1e308, -1e308, 5e-324, 1.0, 100.0, -7.5]
    for _ in range(3000):
        la = rng.choice(specials + [rng.uniform(-2, 2)])
        ln = rng.choice(specials + [rng.uniform(-7, 7)])
        ops2.append(f"ll2c {f2bits(la)} {f2bits(ln)} {rng.choice(gen.EXTREME_INTS + list(range(-1, 17)))}")
    return [("hex2dToCoordIJK", ops), ("latLngToCell-args", ops2)]


def evaluate(ctx, rng, tier, focus, budget, broken):
    pts = _points(ctx, rng, tier)
    ops = [f"ll2c {f2bits(la)} {f2bits(ln)} {r}" for la, ln, r, _ in pts]
    out = ctx.c(ops, tag="eval")
    viol_ = []
    ops2, idx = [], []
    for k, a in enumerate(out):
        la, ln, r, tag = pts[k]
        if not ok(a):
            viol_.append(viol("latLngToCell failed on finite in-range coordinates", ops[k], "success", a))
            continue
        h = int(a.split()[1], 16)
        if not gen.layout_spec(h) or (h >> 52) & 15 != r:
            viol_.append(viol("latLngToCell returned an invalid cell / wrong resolution", ops[k], f"valid res-{r} cell", a))
            continue
        ops2 += [f"boundary {gen.hx(h)}", f"c2ll {gen.hx(h)}", f"geo2fijk {f2bits(la)} {f2bits(ln)} {r}"]
        idx.append((k, h))
    out2 = ctx.c(ops2, tag="eval2")
    tags = {}
    worst = 0.0
    ops3 = []
    for n_, (k, h) in enumerate(idx):
        la, ln, r, tag = pts[k]
        ab, ac, af = out2[3 * n_], out2[3 * n_ + 1], out2[3 * n_ + 2]
        bd = parse_boundary(ab)
        t = ac.split()
        centre = (bits2f(t[1]), bits2f(t[2]))
        tol = max(2e-12, 4e-15 / max(1e-300, math.cos(la)))
        inside, d = contains(centre, bd, (la, ln), tol)
        tags[tag] = tags.get(tag, 0) + 1
        worst = max(worst, d)
        if not inside:
            viol_.append(viol("the returned cell's boundary does not contain the point", ops[k],
                              f"point within {tol:.3g} rad of cell {gen.hx(h)}", f"{a_(out[k])} distance {d:.3g} rad"))
        f = af.split()
        ops3.append((h, f"fijk2h {f[1]} {f[2]} {f[3]} {f[4]} {r}"))
        if len(viol_) >= 20:
            break
    out3 = ctx.c([o for _, o in ops3], tag="eval3")
    for (h, o), a in zip(ops3, out3):
        if a != "ok " + gen.hx(h):
            viol_.append(viol("latLngToCell != _faceIjkToH3(_geoToFaceIjk)", o, "ok " + gen.hx(h), a))
    # error codes on the real library
    ops4, exp4 = [], []
    for r in (-1, 16, -2147483648, 2147483647):
        ops4.append(f"ll2c {f2bits(0.3)} {f2bits(0.4)} {r}"); exp4.append("err 4")
        ops4.append(f"ll2c {f2bits(float('nan'))} {f2bits(0.4)} {r}"); exp4.append("err 4")
    for bad in (float("nan"), float("inf"), float("-inf")):
        for r in (0, 7, 15):
            ops4.append(f"ll2c {f2bits(bad)} {f2bits(0.4)} {r}"); exp4.append("err 3")
            ops4.append(f"ll2c {f2bits(0.3)} {f2bits(bad)} {r}"); exp4.append("err 3")
    out4 = ctx.c(ops4, tag="eval4")
    for o, e, a in zip(ops4, exp4, out4):
        if a != e:
            viol_.append(viol("latLngToCell argument validation", o, e, a))
    return {"evaluations": len(ops) + len(ops2) + len(ops3) + len(ops4), "violations": viol_[:20],
            "distinct": ops[:100000],
            "coverage": {"points": len(pts), "by_kind": tags, "max_distance_outside_rad": worst},
            "samples": [{"op": ops[i], "c_answer": out[i]} for i in (0, len(ops) // 2, len(ops) - 1)]}


def a_(s):
    return s[:40]


def replay_verdict(rp, out):
    return not out[0].startswith("ok") if rp["expected"].startswith(("point", "valid", "success")) else out[0] != rp["expected"]
