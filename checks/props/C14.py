"""C14 — gridPathCells yields a contiguous shortest path of the announced length."""
import gen
from evalutil import *

ID = "C14"
LEVEL = "proof"
MODULES = ["H3Proofs.Props.C14", "H3Proofs.Props.C14Round", "H3Proofs.Props.C09Valid"]
THEOREMS = "auto"
ASSUMPTIONS = ["model of gridPathCells with cubeRound in IEEE doubles (Lean Float = C double; bit-identical "
               "rounding including ties), tied by exact correspondence of the cell sequences"]
ASSUMPTIONS.append("every cell gridPathCells writes is PROVED to be a valid cell of the start's resolution, whatever the "
                   "floating-point interpolation produced (C09Valid.gridPathCells_valid)")
NOT_PROVED = ["consecutive cells are neighbours (cell-level) — evaluated on the real library with areNeighborCells"]
EXPLANATION = ("size = distance + 1 (theorem); exact correspondence of paths; evaluator: length, endpoints and "
               "neighbour steps on pairs within pentagon neighbourhoods at all resolutions and on long paths")


def _pairs(ctx, rng, tier):
    pairs = []
    nb = Neigh(ctx)
    origins = []
    for res in range(16):
        for bc in (4, 58, 117):
            origins.append(gen.mkcell(res, bc, [0] * res))
            if res:
                ds = [0] * res; ds[-1] = rng.choice([2, 3, 4, 5, 6])
                origins.append(gen.mkcell(res, bc, ds))
        origins.append(gen.rand_cell(rng, res=res))
        origins.append(gen.rand_cell(rng, res=res, bc=rng.choice([0, 20, 64, 100])))
    for o in origins:
        bfs = nb.bfs(o, 3)
        if bfs:
            ks = list(bfs.keys())
            rng.shuffle(ks)
            for c in ks[:8]:
                pairs.append((o, c))
            pairs.append((o, o))
    # long paths at fine resolutions via local ij targets (offsets from the origin's own ij)
    far = []
    for _ in range(40 if tier == "quick" else 400):
        res = rng.randrange(6, 16)
        far.append(gen.rand_cell(rng, res=res, bc=rng.choice([0, 20, 33, 64, 100])))
    own = ctx.c([f"lij {gen.hx(o)} {gen.hx(o)} 0" for o in far], tag="own")
    ops, src = [], []
    # path lengths at and around powers of two and their multiples (block-wise / chunked loops, buffer growth), exact
    # because the offset runs along one grid axis; then arbitrary lengths and directions
    special = [64, 128, 256, 512, 1024, 2048, 63, 65, 127, 129, 192, 255, 257, 320, 32, 33, 16, 4096]
    rng.shuffle(special)
    for kk, (o, a) in enumerate(zip(far, own)):
        if not ok(a):
            continue
        i0, j0 = int(a.split()[1]), int(a.split()[2])
        if kk < (24 if tier == "quick" else len(special) * 6):
            n = special[kk % len(special)]
            di, dj = rng.choice([(n, 0), (0, n), (n, n), (-n, 0), (0, -n), (-n, -n)])
            ops.append(f"ij2cell {gen.hx(o)} {i0 + di} {j0 + dj} 0"); src.append(o)
            continue
        n = rng.choice([100, 300, 1000, 2000, rng.randrange(20, 700)])
        di, dj = rng.choice([(n, 0), (0, n), (n, n), (n, n // 2), (n, -n // 3), (rng.randrange(-n, n), rng.randrange(-n, n))])
        ops.append(f"ij2cell {gen.hx(o)} {i0 + di} {j0 + dj} 0"); src.append(o)
    for o, a in zip(src, ctx.c(ops, tag="far")):
        if ok(a):
            pairs.append((o, int(a.split()[1], 16)))
    # paths that start in a pentagon base cell and run 10..60 cells around the pentagon (unfolding tables)
    near = []
    for bc in (4, 38, 58, 117):
        for res in (2, 3, 4, 5, 6, 8, 11):
            for d in (2, 3, 4, 5, 6):
                ds = [0] * res
                ds[rng.choice([res - 1, res - 1, rng.randrange(res)])] = d
                near.append(gen.mkcell(res, bc, ds))
    rng.shuffle(near)
    near = near[: 70 if tier == "quick" else 700]
    own = ctx.c([f"lij {gen.hx(o)} {gen.hx(o)} 0" for o in near], tag="own2")
    ops, src = [], []
    for o, a in zip(near, own):
        if not ok(a):
            continue
        i0, j0 = int(a.split()[1]), int(a.split()[2])
        for (ui, uj) in ((1, 0), (-1, 0), (0, 1), (0, -1), (1, 1), (-1, -1), (2, 1), (1, 2), (-1, 1), (1, -1), (-2, -1), (-1, -2)):
            n = rng.choice([12, 25, 36, 42, 50, 70])
            ops.append(f"ij2cell {gen.hx(o)} {i0 + n * ui} {j0 + n * uj} 0"); src.append(o)
    for o, a in zip(src, ctx.c(ops, tag="near")):
        if ok(a):
            pairs.append((o, int(a.split()[1], 16)))
            pairs.append((int(a.split()[1], 16), o))
    # paths that cross a base-cell seam and end at the tip of the neighbouring base cell (all digits equal: the
    # cell touches a third base cell, two steps away from the start's): samples next to the end can fall outside
    # the range of the start's local coordinates
    tips = []
    for res in (3, 3, 4, 5) if tier == "quick" else (3, 3, 3, 4, 4, 5, 6):
        for _ in range(10 if tier == "quick" else 40):
            bc = rng.choice([b for b in range(122) if b not in gen.PENT_SET])
            tips.append((gen.mkcell(res, bc, [rng.randrange(1, 7)] * res), rng.randrange(14, 26)))
    for (e, k), a in zip(tips, ctx.c([f"disk {gen.hx(e)} {k}" for e, k in tips], tag="tips")):
        if not ok(a):
            continue
        far_ = [c for c, d_ in parse_pairs(a) if c and d_ >= 14 and ((c >> 45) & 127) != ((e >> 45) & 127)]
        rng.shuffle(far_)
        for c in far_[: 20 if tier == "quick" else 40]:
            pairs.append((c, e))
            pairs.append((e, c))
    return pairs


def streams(rng, tier):
    # pairs need the library (neighbour lists); the correspondence stream uses base-cell-local random pairs
    ops = []
    for _ in range(1500 if tier == "quick" else 15000):
        res = rng.randrange(0, 16)
        bc = gen.pick_bc(rng)
        a = gen.rand_cell(rng, res=res, bc=bc)
        # b: same prefix, last digits differ -> short distances; or any cell of the base cell
        _, _, ds = gen.fields(a)
        ds = ds[:res]
        k = rng.randrange(0, min(res, 4) + 1)
        ds2 = gen.fix_pent(bc, ds[:res - k] + [rng.randrange(7) for _ in range(k)])
        b = gen.mkcell(res, bc, ds2)
        ops += [f"path {gen.hx(a)} {gen.hx(b)}", f"pathsize {gen.hx(a)} {gen.hx(b)}"]
    for _ in range(200):
        ops.append(f"path {gen.hx(gen.malformed(rng))} {gen.hx(gen.rand_cell(rng))}")
    return [("paths", ops)]


def evaluate(ctx, rng, tier, focus, budget, broken):
    viol_ = []
    pairs = _pairs(ctx, rng, tier)
    for o in focus:
        t = o.split()
        if t[0] in ("path", "pathsize"):
            try:
                pairs.insert(0, (int(t[1], 16), int(t[2], 16)))
            except ValueError:
                pass
    ops = []
    for a, b in pairs:
        ops += [f"path {gen.hx(a)} {gen.hx(b)}", f"pathsize {gen.hx(a)} {gen.hx(b)}", f"dist {gen.hx(a)} {gen.hx(b)}"]
    out = ctx.c(ops, tag="eval")
    if ctx.prep.model:
        # the same ops through the model: exact cell sequences (the pairs depend on the library, so this
        # correspondence run lives in the evaluator rather than in streams())
        # a difference here is a broken correspondence, not yet a failing input: a path with another tie-break can
        # still be a contiguous shortest path.  It is recorded under `broken` (the check then reports a violation in
        # any case) and the statement itself is evaluated below on these pairs and on very long paths.
        diffs = []
        for o, a, b in zip(ops, out, ctx.m(ops, tag="evalm")):
            if a != b:
                diffs.append({"op": o, "c": a[:200], "model": b[:200]})
        if diffs:
            broken.append({"kind": "correspondence", "name": "paths(evaluator)", "detail": diffs[:10]})
    ops2, meta2 = [], []
    nok = 0
    longest = 0
    for i, (a, b) in enumerate(pairs):
        ap, asz, ad = out[3 * i: 3 * i + 3]
        if ok(asz) != ok(ad) or (ok(ad) and int(asz.split()[1]) != int(ad.split()[1]) + 1):
            viol_.append(viol("gridPathCellsSize != gridDistance + 1", ops[3 * i + 1], ad, asz))
        if a == b and not ok(ap):
            viol_.append(viol("gridPathCells(a, a) must succeed", ops[3 * i], "ok 1 a", ap))
        if ok(ap):
            nok += 1
            cells = parse_hs(ap)
            longest = max(longest, len(cells))
            if not ok(asz) or len(cells) != int(asz.split()[1]) or cells[0] != a or cells[-1] != b or \
                    any(not gen.layout_spec(c) for c in cells):
                viol_.append(viol("path has the wrong length / endpoints / invalid cells", ops[3 * i],
                                  f"{asz} cells from a to b", ap[:200]))
                continue
            step = max(1, len(cells) // 60)
            for j in sorted(set(range(0, len(cells) - 1, step)) | set(range(max(0, len(cells) - 5), len(cells) - 1))):
                ops2.append(f"areneighbors {gen.hx(cells[j])} {gen.hx(cells[j + 1])}"); meta2.append(ops[3 * i])
        if len(viol_) >= 20:
            break
    out2 = ctx.c(ops2, tag="eval2")
    for o, src, a in zip(ops2, meta2, out2):
        if a != "ok 1":
            viol_.append(viol("consecutive path cells are not neighbours", [src, o], "ok 1", a))
            if len(viol_) >= 20:
                break
    # very long paths at the finest resolutions, evaluated in-process by the harness (`pathcheck`): an error that
    # accumulates per sample (seeded change C14g: an epsilon added to the per-sample step instead of the end point)
    # shows only beyond ~1e5 cells.  A few on every run, many more when an obligation or the correspondence is broken.
    want = (4 if budget <= 1 else 12) if tier == "quick" else 40    # one harness run stays below the per-run timeout
    cand = []
    for _ in range(want * 6):
        res = rng.choice([13, 14, 15])
        bc = rng.choice([20, 50, 8, 100, 33])
        z = res - rng.choice([12, 13])
        a = gen.mkcell(res, bc, [0] * res) if rng.random() < 0.5 else \
            gen.mkcell(res, bc, [0] * z + [rng.randrange(7) for _ in range(res - z)])
        b = gen.mkcell(res, bc, [0] * z + [rng.randrange(1, 7)] + [rng.randrange(7) for _ in range(res - z - 1)])
        cand.append((a, b))
    szs = ctx.c([f"pathsize {gen.hx(a)} {gen.hx(b)}" for a, b in cand], tag="longsz")
    longp = [(a, b) for (a, b), s_ in zip(cand, szs) if ok(s_) and 60000 <= int(s_.split()[1]) <= 1500000]
    longp.sort(key=lambda p_: -int(szs[cand.index(p_)].split()[1]))
    longp = longp[:want]
    opsL = [f"pathcheck {gen.hx(a)} {gen.hx(b)}" for a, b in longp]
    outL = ctx.c(opsL, tag="longpaths")
    longest_checked = 0
    for o, a in zip(opsL, outL):
        if not ok(a):
            continue
        t = a.split()
        longest_checked = max(longest_checked, int(t[1]))
        if t[2] != "-1" or t[3:6] != ["1", "1", "1"]:
            viol_.append(viol("long path: a step is not a neighbour step / wrong endpoints / invalid cell "
                              "(answer: size, first bad step, first==a, last==b, all valid)", o,
                              f"ok {t[1]} -1 1 1 1", a))
    # neighbouring cells always succeed
    nb = Neigh(ctx)
    origins = [a for a, _ in pairs[:300]]
    nb.fetch(origins)
    ops3 = []
    for a in origins:
        for x in (nb.cache.get(a) or []):
            ops3.append(f"path {gen.hx(a)} {gen.hx(x)}")
    out3 = ctx.c(ops3, tag="eval3")
    for o, a in zip(ops3, out3):
        t = o.split()
        if a != f"ok 2 {t[1]} {t[2]}":
            viol_.append(viol("gridPathCells between neighbouring cells must succeed with [a, b]", o, f"ok 2 {t[1]} {t[2]}", a))
            if len(viol_) >= 20:
                break
    return {"evaluations": len(ops) + len(ops2) + len(ops3), "violations": viol_[:20], "distinct": ops,
            "coverage": {"pairs": len(pairs), "successful_paths": nok, "longest_path": longest,
                         "long_paths_checked_in_process": len(opsL), "longest_long_path": longest_checked,
                         "neighbour_steps_checked": len(ops2), "neighbour_pairs": len(ops3)},
            "samples": [{"op": ops[i], "c_answer": out[i][:160]} for i in (0, len(ops) // 2)]}


def replay_verdict(rp, out):
    if rp["ops"] and rp["ops"][0].startswith("pathcheck"):
        return out[0] != rp.get("expected")
    return True
