"""C11 — vertex indexes are canonical: one index per corner, shared by its three cells."""
import gen
from evalutil import *

ID = "C11"
LEVEL = "proof"
MODULES = ["H3Proofs.Props.C11", "H3Proofs.Props.C11Res0", "H3Proofs.Props.C11Pent"]
THEOREMS = "auto"
ASSUMPTIONS = ["model of vertexRotations / vertexNumForDirection / directionForVertexNum / cellToVertex(es) / "
               "isValidVertex with regenerated tables, tied by exact correspondence",
               "three-cells-one-index and the 2N-4 count are evaluated (complete for coarse resolutions), not proved in general"]
NOT_PROVED = ["three_cells_one_index (unbounded)", "vertex_count identity beyond the enumerated resolutions",
              "vertexToLatLng = i-th boundary corner (float)"]
EXPLANATION = ("isValidVertex = re-derivation (theorem), domain errors, table inverses; correspondence of all vertex "
               "functions; evaluator: complete res 0-1 (quick) / 0-2 (thorough): 2N-4 distinct vertexes each produced "
               "by exactly three cells; mutated vertex indexes rejected; coordinates = boundary corners")


def _cells(rng, tier):
    cells = []
    for res in range(16):
        for bc in (4, 58, 117):
            p = gen.mkcell(res, bc, [0] * res)
            cells.append(p)
            if res:
                ds = [0] * res; ds[-1] = rng.choice([2, 3, 4, 5, 6])
                cells.append(gen.mkcell(res, bc, ds))
    for _ in range(150 if tier == "quick" else 1500):
        cells.append(gen.rand_cell(rng))
    return list(dict.fromkeys(cells))


def _far_vnums(rng):
    """vertex numbers far outside the range, in particular those that are in range modulo a power of two"""
    k = rng.choice([8, 16, 24, 31])
    return [(1 << k) + rng.randrange(0, 7), -(1 << k) + rng.randrange(0, 7), 256 + rng.randrange(0, 7),
            -256 + rng.randrange(0, 7), rng.choice(gen.EXTREME_INTS), rng.randrange(-2 ** 31, 2 ** 31)]


def streams(rng, tier):
    ops = []
    for h in _cells(rng, tier):
        x = gen.hx(h)
        ops += [f"c2vs {x}", f"vrot {x}"]
        for v in list(range(-1, 8)) + _far_vnums(rng):
            ops += [f"c2v {x} {v}", f"dirforvnum {x} {v}"]
        for d in range(0, 8):
            ops.append(f"vnumfordir {x} {d}")
    for _ in range(1500):
        m = gen.malformed(rng)
        v = (m & ~(0xf << 59)) | (rng.choice([4, 4, 4, rng.randrange(16)]) << 59)
        ops += [f"vvalid {gen.hx(v)}", f"c2vs {gen.hx(m)}", f"c2v {gen.hx(m)} {rng.randrange(-1, 7)}"]
    return [("vertexes", ops)]


def evaluate(ctx, rng, tier, focus, budget, broken):
    viol_ = []
    # complete coarse resolutions
    full = []
    maxfull = 1 if tier == "quick" else 2
    for r in range(maxfull + 1):
        lst = []
        for bc in range(122):
            lst += gen.children(gen.mkcell(0, bc, []), r)
        full.append(lst)
    cells = [c for lst in full for c in lst] + _cells(rng, tier)
    ops = [f"c2vs {gen.hx(h)}" for h in cells]
    out = ctx.c(ops, tag="eval")
    vtx = {}
    owners = {}
    ops2, meta2 = [], []
    for h, o, a in zip(cells, ops, out):
        if not ok(a):
            viol_.append(viol("cellToVertexes failed on a valid cell", o, "six slots", a)); continue
        vs = parse_hs(a)
        pent = gen.is_pentagon(h)
        nz = [v for v in vs if v != 0]
        if len(vs) != 6 or len(set(nz)) != (5 if pent else 6) or (pent and vs[5] != 0):
            viol_.append(viol("cellToVertexes must return 6 (5 + null slot) distinct indexes", o, "distinct", a))
        vtx[h] = vs
        for i, v in enumerate(vs):
            if v:
                owners.setdefault(v, []).append(h)
        for i in list(range(-1, 8)) + _far_vnums(rng):
            ops2.append(f"c2v {gen.hx(h)} {i}"); meta2.append((h, i))
    out2 = ctx.c(ops2, tag="eval2")
    for o, (h, i), a in zip(ops2, meta2, out2):
        pent = gen.is_pentagon(h)
        n = 5 if pent else 6
        if 0 <= i < n:
            if h in vtx and a != "ok " + gen.hx(vtx[h][i]):
                viol_.append(viol("cellToVertex(cell,i) differs from slot i of cellToVertexes", o, gen.hx(vtx[h][i]), a))
        elif a != "err 2":
            viol_.append(viol("vertex number outside the cell's range must give E_DOMAIN", o, "err 2", a))
        if len(viol_) >= 20:
            break
    # validity of all produced indexes, and 2N-4 / exactly three cells per vertex on the complete resolutions
    allv = list(owners.keys())
    out3 = ctx.c([f"vvalid {gen.hx(v)}" for v in allv], tag="eval3")
    for v, a in zip(allv, out3):
        if a != "ok 1":
            viol_.append(viol("a produced vertex index is rejected by isValidVertex", f"vvalid {gen.hx(v)}", "ok 1", a))
    for r, lst in enumerate(full):
        S = set(lst)
        vr = {}
        for h in lst:
            for v in vtx.get(h, []):
                if v:
                    vr.setdefault(v, []).append(h)
        N = len(lst)
        if len(vr) != 2 * N - 4:
            viol_.append(viol(f"resolution {r}: number of distinct vertexes is not 2N-4", f"c2vs <all {N} cells of res {r}>", 2 * N - 4, len(vr),
                              key=f"count:res{r}"))
        bad = [(v, hs) for v, hs in vr.items() if len(hs) != 3]
        for v, hs in bad[:3]:
            viol_.append(viol("a corner is not produced by exactly three cells", [f"c2vs {gen.hx(h)}" for h in hs], 3, f"{gen.hx(v)} from {len(hs)} cells"))
    # non-canonical namings are rejected: same corner through a non-owner, every vertex number, other modes
    ops4, exp4 = [], []
    for v, hs in list(owners.items())[: 3000 * budget]:
        owner = (v & ~(0xff << 56)) | (1 << 59)
        for h in hs:
            if h != owner:
                for k in range(6):
                    cand = (h & ~(0xff << 56)) | (4 << 59) | (k << 56)
                    ops4.append(f"vvalid {gen.hx(cand)}"); exp4.append("ok 1" if cand in owners else "ok 0")
        for k in range(8):
            cand = (v & ~(7 << 56)) | (k << 56)
            if cand != v and cand not in owners and (owner in vtx):
                ops4.append(f"vvalid {gen.hx(cand)}"); exp4.append("ok 0")
        ops4.append(f"vvalid {gen.hx(v ^ (1 << 63))}"); exp4.append("ok 0")
        ops4.append(f"vvalid {gen.hx((v & ~(0xf << 59)) | (2 << 59))}"); exp4.append("ok 0")
    out4 = ctx.c(ops4, tag="eval4")
    for o, e, a in zip(ops4, exp4, out4):
        if a != e:
            viol_.append(viol("isValidVertex must accept exactly the canonical index of a corner", o, e, a))
            if len(viol_) >= 25:
                break
    # coordinates: vertexToLatLng(slot i) = i-th topological corner of cellToBoundary
    sample = [h for h in cells if h in vtx][:: max(1, len(cells) // 400)]
    ops5 = []
    for h in sample:
        ops5.append(f"boundary {gen.hx(h)}")
        for v in vtx[h]:
            if v:
                ops5.append(f"v2ll {gen.hx(v)}")
    out5 = ctx.c(ops5, tag="eval5")
    k = 0
    ncoord = 0
    for h in sample:
        bd = parse_boundary(out5[k]) if ok(out5[k]) else None
        k += 1
        pent = gen.is_pentagon(h)
        res = (h >> 52) & 15
        for i, v in enumerate(vtx[h]):
            if not v:
                continue
            a = out5[k]; k += 1
            if bd is None or not ok(a):
                continue
            p = (bits2f(a.split()[1]), bits2f(a.split()[2]))
            # topological corner i: without distortion vertices it is boundary[i]; with them (Class III) the
            # corner is among the boundary points: require some boundary point within 1e-12
            d = min(gc_dist(p, q) for q in bd)
            ncoord += 1
            if d > 1e-12:
                viol_.append(viol("vertexToLatLng is not a corner of the cell's boundary (1e-12 rad)", f"v2ll {gen.hx(v)}", "a boundary vertex", f"distance {d:.3g}"))
            elif len(bd) == (5 if pent else 6) and i < len(bd) and gc_dist(p, bd[i]) > 1e-12:
                viol_.append(viol("vertexToLatLng(slot i) is not the i-th corner", f"v2ll {gen.hx(v)}", f"corner {i}", "another corner"))
    return {"evaluations": len(ops) + len(ops2) + len(allv) + len(ops4) + len(ops5), "violations": viol_[:20],
            "distinct": ops,
            "coverage": {"cells": len(cells), "complete_resolutions": list(range(maxfull + 1)),
                         "distinct_vertexes": len(owners), "non_canonical_candidates": len(ops4), "coordinates_checked": ncoord},
            "samples": [{"op": ops[i], "c_answer": out[i][:160]} for i in (0, len(ops) // 2)]}


def replay_verdict(rp, out):
    return True
