"""C01 — cell validity is exactly the documented 64-bit layout (DESIGN §5 C01)."""
import gen

ID = "C01"
LEVEL = "proof"
MODULES = ["H3Proofs.Props.C01", "H3Proofs.Props.C01Lnz", "H3Proofs.Props.C01Rot", "H3Proofs.Props.C04Gen", "H3Proofs.Props.C05Gen", "H3Proofs.Props.C05Valid2", "H3Proofs.Props.C02Valid", "H3Proofs.Props.C09Valid", "H3Proofs.Props.C10Valid", "H3Proofs.Props.C05All", "H3Proofs.Props.C01Api", "H3Proofs.Props.C01Poly"]
THEOREMS = ["H3.C01.isValidCell_eq_layout", "H3.C01.isValidCell_defined_all", "H3.C01.pentBC_eq_table",
            "H3.C01L.h3LeadingNonZeroDigit_defined_all", "H3.C01L.h3LeadingNonZeroDigit_eq_model",
            "H3.C01R.h3Rotate60ccw_defined_all", "H3.C01R.h3Rotate60cw_defined_all",
            "H3.C01R.h3Rotate60ccw_eq_model", "H3.C01R.h3Rotate60cw_eq_model",
            "H3.C04G.isPentagon_eq_model", "H3.C04G.isPentagon_defined_all", "H3.C04G.cellToParent_eq_model",
            "H3.C04G.cellToParent_defined_all", "H3.C04G.cellToCenterChild_eq_model", "H3.C04G.cellToCenterChild_defined_all",
            "H3.C04G.cellToChildrenSize_eq_model", "H3.C04G.cellToChildrenSize_defined_all", "H3.C04G.makeDirectChild_eq_model",
            "H3.C04G.makeDirectChild_defined_of", "H3.C04G.setH3Index_eq_model", "H3.C04G.setH3Index_defined_of",
            "H3.C05G.h3RotatePent60ccw_eq_model", "H3.C05G.h3RotatePent60cw_eq_model",
            "H3.C05G.h3RotatePent60ccw_defined_all", "H3.C05G.h3RotatePent60cw_defined_all",
            "H3.C01A.getResolution_eq_model", "H3.C01A.getBaseCellNumber_eq_model", "H3.C01A.isResClassIII_eq_model",
            "H3.C01A.getters_defined_all", "H3.C01A.counts",
            "H3.C05V.h3NeighborRotations_layout", "H3.C05V.walk_valid", "H3.C02V.faceIjkToH3_valid",
            "H3.C09V.localIjToCell_valid", "H3.C09V.gridPathCells_valid", "H3.C10V.edge_cells_valid",
            "H3.C05R.gridDiskDistancesUnsafe_valid", "H3.C05R.gridRingUnsafe_valid", "H3.C05All.gridDiskDistances_valid",
            "H3.C01P.polyfill_valid", "H3.C01P.polyfill_no_null", "H3.C01P.polyExpand_subset"]
BV_DECIDE_THEOREMS = ["H3.C01.isValidCell_eq_layout", "H3.C01.isValidCell_defined_all"]
NOT_PROVED = ["closure clause: a theorem for every cell-returning function of the model except the legacy polygon fill "
              "(polygonToCells: edge tracing + flood fill, not modelled; cellsToLinkedMultiPolygon returns no cells) (hierarchy: C04/C13 modules; neighbour steps, safe disk, ring walks, gridDisk: C05Valid2 / "
              "C05Ring / C05All; compactCells / uncompactCells: C06 modules; _faceIjkToH3, i.e. whatever latLngToCell returns: "
              "C02Valid; localIjToCell and every cell of gridPathCells: C09Valid; edge origin / destination: C10Valid); "
              "polygonToCellsExperimental: every output value is accepted by the translated isValidCell, has the target "
              "resolution and is never H3_NULL, relative to the traversal model (C01Poly.polyfill_valid / polyfill_no_null, from "
              "C07Iter.polyfill_mem and C03Count.mem_cellsEnum_iff); in addition the closure sweep passes "
              "every cell those API calls return on the real library through the documented layout (runtime monitor)"]
ASSUMPTIONS = ["Gen.Bits.isValidCell is the c2lean translation of the C text (validated differentially here, "
               "helper by helper)",
               "_h3LeadingNonZeroDigit, _h3Rotate60ccw, _h3Rotate60cw (and _rotate60ccw/_rotate60cw) are translated from the C "
               "text on every run with their loops unrolled sixteen times and PROVED equal to the hand-written model functions "
               "for all 2^64 values (C01Lnz, C01Rot): these three model functions are tied to the code by translation, not "
               "only by correspondence",
               "likewise (C04Gen, C05Gen) isPentagon with _isBaseCellPentagon and the isPentagon column of baseCellData, "
               "cellToParent, _hasChildAtRes, cellToCenterChild, _ipow(7, 0..15), cellToChildrenSize, makeDirectChild, setH3Index, "
               "_h3RotatePent60ccw, _h3RotatePent60cw: translated from the C text on every run (out parameters as extra results, "
               "conditionals inside loops as merges) and proved equal to the model functions, error codes and 'output untouched "
               "on error' included", "bv_decide's LRAT checker (one native axiom per bv_decide theorem)"]
EXPLANATION = ("isValidCell generated from C equals the hand-written documentation-level layoutSpec for all 2^64 "
               "values (bv_decide); correspondence validates the translator on structured and malformed indexes")
RULE = ("structured: every res x base-cell class x digit pattern, each with every single bit flipped; malformed "
        "stream (random bits, 1-3 flips, wrong mode/reserved, planted 7, deleted subsequence, bc>=122); "
        "non-trivial = the real isValidCell answered 1, or the index differs from a valid one in <= 3 bits")


def nontrivial(op, ans):
    return True


def _values(rng, tier):
    n = 30000 if tier == "quick" else 600000
    vals = []
    sv = gen.structured_valid_cells()
    vals += sv
    for h in sv[:: (7 if tier == "quick" else 1)]:
        for b in range(64):
            vals.append(h ^ (1 << b))
    for top in range(256):
        vals.append((top << 56) | (gen.rand_cell(rng) & ((1 << 56) - 1)))
    for _ in range(n):
        vals.append(gen.malformed(rng))
    for _ in range(n // 3):
        vals.append(gen.rand_cell(rng))
    return vals


def streams(rng, tier):
    vals = _values(rng, tier)
    ops = ["valid " + gen.hx(h) for h in vals]
    ops2 = ["vparts " + gen.hx(h) for h in vals[::3]] + ["genfn " + gen.hx(h) for h in vals[::5]] + ["genfn6 " + gen.hx(h) for h in vals[::9]] + \
        ["genfn2 %s %d %s" % (gen.hx(h), r_, gen.hx(vals[(i_ * 7 + 3) % len(vals)]))
         for i_, h in enumerate(vals[::7]) for r_ in ((i_ % 19) - 2, gen.EXTREME_INTS[i_ % len(gen.EXTREME_INTS)])]
    ops3 = []
    for h in vals[::11]:
        ops3.append(f"mac {gen.hx(h)} {rng.randrange(1, 16)} {rng.randrange(8)} {rng.randrange(256)}")
        ops3.append(f"zero {gen.hx(h)} {rng.randrange(1, 16)} {rng.randrange(1, 16)}")
    return [("isValidCell", ops), ("static-helpers", ops2), ("macros", ops3)]


# closure clause: which tokens of an "ok ..." answer are cells that the library returned
_FIRST = lambda t: t[1:2]
_LIST = lambda t: t[2:2 + int(t[1])]
_PAIRS = lambda t: [x for x in t[2:2 + 2 * int(t[1]):2] if x != "0"]
_LIST0 = lambda t: [x for x in t[2:2 + int(t[1])] if x != "0"]   # arrays documented as zero-padded
_ALL = lambda t: t[1:]
CELL_OUT = {"parent": _FIRST, "center": _FIRST, "pos2cell": _FIRST, "ll2c": _FIRST, "nbr": _FIRST,
            "ij2cell": _FIRST, "edgeorigin": _FIRST, "edgedest": _FIRST, "fromstr": None,
            "children": _LIST, "iterhead": _LIST, "ring": _LIST, "path": _LIST, "compact": _LIST0,
            "pentagons": _LIST, "res0": _LIST, "edgecells": _ALL, "disk": _PAIRS}


def closure_ops(rng, tier, budget):
    """API calls whose returned cells are passed through the documented layout (runtime monitor of the
    closure clause; not a theorem for the functions outside the proved hierarchy/traversal layer)"""
    import struct
    import math
    ops = ["res0"] + [f"pentagons {r}" for r in range(16)]
    n = (1500 if tier == "quick" else 20000) * budget
    cells = gen.structured_valid_cells()[::5] + [gen.rand_cell(rng) for _ in range(n)]
    for h in cells:
        res = (h >> 52) & 15
        k = rng.randrange(9)
        if k == 0:
            ops.append(f"parent {gen.hx(h)} {rng.randrange(0, res + 1)}")
            ops.append(f"center {gen.hx(h)} {rng.randrange(res, 16)}")
        elif k == 1:
            # child positions over the whole range of every depth (beyond 2^31 and 2^32 for deep ones)
            cres = rng.randrange(res, 16)
            sz = gen.children_size(h, cres)
            for pos in {0, sz - 1, rng.randrange(sz), min(sz - 1, 2 ** 31 + rng.randrange(2 ** 20)),
                        min(sz - 1, 2 ** 32 + rng.randrange(2 ** 33)), sz // 2, min(sz - 1, rng.randrange(2 ** 40))}:
                ops.append(f"pos2cell {pos} {gen.hx(h)} {cres}")
        elif k == 2:
            lat = math.asin(rng.uniform(-1, 1)); lng = rng.uniform(-math.pi, math.pi)
            f = lambda x: struct.pack(">d", x).hex()
            ops.append(f"ll2c {f(lat)} {f(lng)} {rng.randrange(16)}")
        elif k == 3:
            ops.append(f"nbr {gen.hx(h)} {rng.randrange(1, 7)} {rng.randrange(6)}")
            ops.append(f"disk {gen.hx(h)} {rng.randrange(0, 4)}")
        elif k == 4:
            ops.append(f"ij2cell {gen.hx(h)} {rng.randrange(-30, 30)} {rng.randrange(-30, 30)} 0")
            ops.append(f"ring {gen.hx(h)} {rng.randrange(0, 5)}")
        elif k == 5:
            e = (h & ~(0xF << 59) & ~(7 << 56)) | (2 << 59) | (rng.randrange(1, 7) << 56)
            ops += [f"edgeorigin {gen.hx(e)}", f"edgedest {gen.hx(e)}", f"edgecells {gen.hx(e)}"]
        elif k == 6:
            if res < 15:
                ops.append(f"children {gen.hx(h)} {min(15, res + rng.randrange(0, 4))}")
            ops.append(f"iterhead {gen.hx(h)} {rng.randrange(res, 16)} 40")
        elif k == 7:
            s = gen.rand_set(rng, maxsize=200)
            ops.append("compact " + " ".join([str(len(s))] + [gen.hx(x) for x in s]))
        else:
            g = h   # a cell at most two levels away in the hierarchy: short paths
            for r in (res, res - 1):
                if r >= 1:
                    g = (g & ~(7 << (3 * (15 - r)))) | (rng.randrange(7) << (3 * (15 - r)))
            if not gen.layout_spec(g):
                g = h
            ops.append(f"path {gen.hx(h)} {gen.hx(g)}")
    return ops


def closure_eval(ctx, rng, tier, budget):
    ops = closure_ops(rng, tier, budget)
    out = ctx.c(ops, tag="closure")
    viol = []
    ncell = 0
    per = {}
    for o, a in zip(ops, out):
        t = a.split()
        ex = CELL_OUT.get(o.split()[0])
        if not t or t[0] != "ok" or ex is None:
            continue
        try:
            cs = ex(t)
        except (ValueError, IndexError):
            continue
        per[o.split()[0]] = per.get(o.split()[0], 0) + len(cs)
        for c in cs:
            ncell += 1
            if not gen.layout_spec(int(c, 16)):
                viol.append({"what": f"closure clause: {o.split()[0]} returned {c}, which is not a valid cell by the "
                                     "documented layout", "ops": [o], "expected": "only valid cells in the result",
                             "observed": a[:300], "key": "closure:" + o, "closure_cell": c})
                break
        if len(viol) >= 10:
            break
    return len(ops), ncell, per, viol


def evaluate(ctx, rng, tier, focus, budget, broken):
    """C-side evaluator: real isValidCell vs the python copy of the documented layout"""
    n = (40000 if tier == "quick" else 400000) * budget
    vals = [int(o.split()[1], 16) for o in focus if o.startswith("valid ")]
    sv = gen.structured_valid_cells()
    vals += sv
    for h in sv[::5]:
        for b in range(64):
            vals.append(h ^ (1 << b))
    for _ in range(n):
        vals.append(gen.malformed(rng))
    ops = ["valid " + gen.hx(h) for h in vals]
    out = ctx.c(ops, tag="eval")
    viol = []
    npos = 0
    for h, a in zip(vals, out):
        exp = gen.layout_spec(h)
        npos += exp
        if a != ("ok 1" if exp else "ok 0"):
            viol.append({"what": "isValidCell disagrees with the documented layout",
                         "ops": ["valid " + gen.hx(h)], "expected": "ok 1" if exp else "ok 0",
                         "observed": a, "key": "valid:" + gen.hx(h)})
            if len(viol) >= 20:
                break
    nclo, ncell, per, cviol = closure_eval(ctx, rng, tier, budget)
    viol += cviol
    return {"evaluations": len(ops) + nclo, "violations": viol,
            "coverage": {"values": len(vals), "valid_by_spec": npos, "closure_calls": nclo,
                         "closure_cells_checked": ncell, "closure_cells_by_op": per},
            "samples": [{"op": ops[i], "c_answer": out[i]} for i in (0, len(ops) // 2, len(ops) - 1)]}


def replay_verdict(rp, out):
    op = rp["ops"][0].split()[0]
    if op != "valid":
        t = out[0].split()
        ex = CELL_OUT.get(op)
        if not t or t[0] != "ok" or ex is None:
            return False
        return any(not gen.layout_spec(int(c, 16)) for c in ex(t))
    h = int(rp["ops"][0].split()[1], 16)
    return out[0] != ("ok 1" if gen.layout_spec(h) else "ok 0")
