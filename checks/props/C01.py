"""C01 — cell validity is exactly the documented 64-bit layout (DESIGN §5 C01)."""
import gen

ID = "C01"
LEVEL = "proof"
MODULES = ["H3Proofs.Props.C01"]
THEOREMS = ["H3.C01.isValidCell_eq_layout", "H3.C01.isValidCell_defined_all", "H3.C01.pentBC_eq_table"]
BV_DECIDE_THEOREMS = ["H3.C01.isValidCell_eq_layout", "H3.C01.isValidCell_defined_all"]
NOT_PROVED = ["closure clause for functions outside the proved hierarchy/traversal theorems is a runtime monitor "
              "(every cell the driver prints is passed through the proved-equal isValidCell), not a theorem"]
ASSUMPTIONS = ["Gen.Bits.isValidCell is the c2lean translation of the C text (validated differentially here, "
               "helper by helper)", "bv_decide's LRAT checker (one native axiom per bv_decide theorem)"]
EXPLANATION = ("isValidCell generated from C equals the hand-written documentation-level layoutSpec for all 2^64 "
               "values (bv_decide); correspondence validates the translator on structured and malformed indexes")
RULE = ("structured: every res x base-cell class x digit pattern, each with every single bit flipped; malformed "
        "stream (random bits, 1-3 flips, wrong mode/reserved, planted 7, deleted subsequence, bc>=122); "
        "non-trivial = the real isValidCell answered 1, or the index differs from a valid one in <= 3 bits")


def nontrivial(op, ans):
    return True


def _values(rng, tier):
    n = 30000 if tier == "quick" else 600000
    vals = []
    sv = gen.structured_valid_cells()
    vals += sv
    for h in sv[:: (7 if tier == "quick" else 1)]:
        for b in range(64):
            vals.append(h ^ (1 << b))
    for top in range(256):
        vals.append((top << 56) | (gen.rand_cell(rng) & ((1 << 56) - 1)))
    for _ in range(n):
        vals.append(gen.malformed(rng))
    for _ in range(n // 3):
        vals.append(gen.rand_cell(rng))
    return vals


def streams(rng, tier):
    vals = _values(rng, tier)
    ops = ["valid " + gen.hx(h) for h in vals]
    ops2 = ["vparts " + gen.hx(h) for h in vals[::3]]
    ops3 = []
    for h in vals[::11]:
        ops3.append(f"mac {gen.hx(h)} {rng.randrange(1, 16)} {rng.randrange(8)} {rng.randrange(256)}")
        ops3.append(f"zero {gen.hx(h)} {rng.randrange(1, 16)} {rng.randrange(1, 16)}")
    return [("isValidCell", ops), ("static-helpers", ops2), ("macros", ops3)]


def evaluate(ctx, rng, tier, focus, budget, broken):
    """C-side evaluator: real isValidCell vs the python copy of the documented layout"""
    n = (40000 if tier == "quick" else 400000) * budget
    vals = [int(o.split()[1], 16) for o in focus if o.startswith("valid ")]
    sv = gen.structured_valid_cells()
    vals += sv
    for h in sv[::5]:
        for b in range(64):
            vals.append(h ^ (1 << b))
    for _ in range(n):
        vals.append(gen.malformed(rng))
    ops = ["valid " + gen.hx(h) for h in vals]
    out = ctx.c(ops, tag="eval")
    viol = []
    npos = 0
    for h, a in zip(vals, out):
        exp = gen.layout_spec(h)
        npos += exp
        if a != ("ok 1" if exp else "ok 0"):
            viol.append({"what": "isValidCell disagrees with the documented layout",
                         "ops": ["valid " + gen.hx(h)], "expected": "ok 1" if exp else "ok 0",
                         "observed": a, "key": "valid:" + gen.hx(h)})
            if len(viol) >= 20:
                break
    return {"evaluations": len(ops), "violations": viol,
            "coverage": {"values": len(vals), "valid_by_spec": npos},
            "samples": [{"op": ops[i], "c_answer": out[i]} for i in (0, len(ops) // 2, len(ops) - 1)]}


def replay_verdict(rp, out):
    h = int(rp["ops"][0].split()[1], 16)
    return out[0] != ("ok 1" if gen.layout_spec(h) else "ok 0")
