"""C16 — cellsToLinkedMultiPolygon outlines exactly the union of the cells."""
import math
import os, json
import gen
from evalutil import *

ID = "C16"
# approximate cell edge length in radians per resolution
EDGE = [0.19, 0.072, 0.027, 0.0103, 0.0039, 0.00147, 0.00056, 0.00021, 8e-5, 3e-5, 1.1e-5, 4.3e-6, 1.6e-6, 6e-7, 2.3e-7, 8.8e-8]
LEVEL = "other"
MODULES = ["H3Proofs.Props.C16", "H3Proofs.Props.C16Loops"]
THEOREMS = "auto"
TECHNIQUE = ("Lean 4 theorems about the combinatorial core over exact vertex identities (edge cancellation keeps every "
             "vertex balanced; the loop extraction of _vertexGraphToLinkedGeo then returns closed cycles that use every "
             "residual edge exactly once, every loop edge being a boundary edge of an input cell — all cell lists, all "
             "orders) + model/code correspondence of the loop structure (the model run over the canonical vertex indexes "
             "of cellToVertex at Class II resolutions, compared with the loops the real function returns); component "
             "count, winding, hole assignment, area identity and allocation balance are a differential run on the real library")
ASSUMPTIONS = ["vertex matching by geoAlmostEqual / _hashVertex (floating point) is outside the model: the model uses "
               "exact vertex identities (finding F4 lives in that gap); winding and areas are evaluated on the real outputs",
               "sets whose footprint reaches a pole are excluded (as the property does)"]
NOT_PROVED = ["one polygon per connected component; outer CCW / holes CW assignment (normalizeMultiPolygon: winding and "
              "point-in-loop tests are floating-point geometry); enclosed area = sum of cell areas",
              "Class III resolutions (distortion vertices on icosahedron edges are not vertex indexes): loop structure by "
              "the evaluator only"]
EXPLANATION = ("edge-cancellation balance + Euler-walk theorems (C16.vertexGraph_balanced, C16Loops.loops_of_cells): loops are "
               "closed cycles partitioning the residual edges; loop-structure correspondence with the model at even resolutions; "
               "evaluator over disks, disks with removed cells, islands in holes, several components, pentagon rings, pairs, "
               "single cells, antimeridian, all 16 resolutions")


def _sets(ctx, rng, tier):
    sets = []
    nb = Neigh(ctx)
    n = 45 if tier == "quick" else 500
    for i in range(n):
        res = i % 16
        kind = rng.choice(["disk", "holes", "island", "multi", "pent", "anti"])
        if kind == "pent":
            o = gen.mkcell(res, rng.choice(gen.PENT[1:-1]), [0] * res)
        elif kind == "anti":
            a = ctx.c([f"ll2c {f2bits(rng.uniform(-1.2, 1.2))} {f2bits(math.pi - 1e-4)} {res}"], tag="anti")[0]
            o = int(a.split()[1], 16) if ok(a) else gen.rand_cell(rng, res=res)
        else:
            o = gen.rand_cell(rng, res=res)
        k = rng.randrange(1, 5) if res > 0 else 1
        d = nb.bfs(o, k)
        if not d:
            continue
        cells = list(d.keys())
        if kind in ("holes", "island"):
            inner = [c for c in cells if 0 < d[c] < k]
            rng.shuffle(inner)
            for c in inner[: max(1, len(inner) // 4)]:
                cells.remove(c)
        if kind == "island" and k >= 3:
            cells = [c for c in cells if d[c] != 1 and d[c] != 2] + [o]     # centre island inside a ring hole
            cells = list(dict.fromkeys(cells))
        if kind == "multi":
            far = gen.rand_cell(rng, res=res)
            d2 = nb.bfs(far, 1)
            if d2:
                cells += [c for c in d2 if c not in cells]
        rng.shuffle(cells)
        sets.append((kind, cells))
    # sets straddling an icosahedron edge exactly where it crosses the equator / prime meridian / antimeridian, at
    # the fine resolutions (vertex hashing and vertex equality see a coordinate ~0 computed through two faces)
    from props.C03 import axis_seam_points
    sp = axis_seam_points(ctx)
    if tier == "quick":
        sp = rng.sample(sp, min(len(sp), 8))
    for (la, ln) in sp:
        for res in ((rng.randrange(11, 16), rng.randrange(3, 11)) if tier == "quick" else range(3, 16)):
            a = ctx.c([f"ll2c {f2bits(la)} {f2bits(ln)} {res}"], tag="seam")[0]
            if not ok(a):
                continue
            o = int(a.split()[1], 16)
            d = nb.bfs(o, 2)
            if not d:
                continue
            cells = list(d.keys())
            if rng.random() < 0.5:
                cells.remove(o)
            rng.shuffle(cells)
            sets.append(("axis-seam", cells))
    # small sets with a hole: the five neighbours of a pentagon without the pentagon (the only sets of fewer than
    # six cells that enclose a hole), hexagon rings without their centre, two cells, single cells
    for res in ((1, 2, 3, 6, 9, 12, 15) if tier == "quick" else range(1, 16)):
        for bc in (rng.sample(gen.PENT, 3) if tier == "quick" else gen.PENT):
            p = gen.mkcell(res, bc, [0] * res)
            d = nb.bfs(p, 1)
            if d:
                ring = [c for c in d if c != p]
                rng.shuffle(ring)
                sets.append(("pent-ring", ring))
        o = gen.rand_cell(rng, res=res)
        d = nb.bfs(o, 1)
        if d:
            ring = [c for c in d if c != o]
            sets.append(("hex-ring", ring))
            sets.append(("pair", ring[:1] + [o]))
            sets.append(("single", [o]))
    # bullseyes: centre + hollow ring at distance 3 + hollow ring at distance 5 (+ a separate island):
    # a hole nested inside two outer loops, next to outer loops that do not contain it
    for i in range(110 if tier == "quick" else 1500):
        res = rng.randrange(5, 16)
        o = gen.rand_cell(rng, res=res, bc=rng.choice([0, 20, 33, 64, 100, 121, 7, 50]))
        d = nb.bfs(o, 8 if i % 2 else 5)
        if not d:
            continue
        cells = [c for c, k in d.items() if k in (0, 3, 5)]
        if i % 5 == 0:      # three and four nested outer loops around the innermost hole
            cells = [c for c, k in d.items() if k in (1, 3, 5)]
        elif i % 5 == 1 and len(d) > 127:
            cells = [c for c, k in d.items() if k in (0, 2, 4, 6)]
        elif i % 5 == 2 and len(d) > 127:
            cells = [c for c, k in d.items() if k in (1, 3, 5, 7)]
        if i % 2:
            far = [c for c, k in d.items() if k == 8]
            if far:
                cells.append(rng.choice(far))
        rng.shuffle(cells)
        sets.append(("bullseye", cells))
    return sets, nb


def streams(rng, tier):
    return []


def components(cells, nb):
    """list of edge-connected components (lists of cells)"""
    S = set(cells)
    nb.fetch(cells)
    seen, comps = set(), []
    for c in cells:
        if c in seen:
            continue
        comp = [c]
        st = [c]
        seen.add(c)
        while st:
            x = st.pop()
            for y in (nb.cache.get(x) or []):
                if y in S and y not in seen:
                    seen.add(y)
                    st.append(y)
                    comp.append(y)
        comps.append(comp)
    return comps


def proj_area(pts, centre_v):
    """signed area of the loop in the gnomonic chart centred on centre_v.  Planar areas in one common chart are
    exactly additive over a tiling, so a polygon (outer loop minus holes) and the cells of its component must
    have the same chart area up to rounding, whatever the distortion of the chart."""
    a = (0.0, 0.0, 1.0) if abs(centre_v[2]) < 0.9 else (1.0, 0.0, 0.0)
    e1 = vnorm(vcross(a, centre_v)); e2 = vcross(centre_v, e1)
    us = []
    for p in pts:
        v = ll2v(*p)
        d = vdot(v, centre_v)
        w = vsub(vscale(v, 1.0 / d), centre_v)      # point of the tangent plane, relative to the centre
        us.append((vdot(w, e1), vdot(w, e2)))
    s = 0.0
    for k in range(len(us)):
        x1, y1 = us[k]; x2, y2 = us[(k + 1) % len(us)]
        s += x1 * y2 - x2 * y1
    return s / 2


def hash_vertex(p, res, nb):
    """vertexGraph.c:_hashVertex"""
    return int(math.fmod(abs((p[0] + p[1]) * 10.0 ** (15 - res)), nb)) & 0xffffffff


def hash_split(bverts, res, ncells):
    """known finding F4: two boundary vertices that are geoAlmostEqual (1e-9) but not bit-identical and that
    _hashVertex sends to different buckets -> the reverse edge is not found, no cancellation"""
    nb = max(ncells, 6)
    pts = sorted(set(bverts))
    for i in range(len(pts) - 1):
        p = pts[i]
        j = i + 1
        while j < len(pts) and pts[j][0] - p[0] < 1e-9:
            q = pts[j]
            if abs(q[1] - p[1]) < 1e-9 and hash_vertex(p, res, nb) != hash_vertex(q, res, nb):
                return True
            j += 1
    return False


def evaluate(ctx, rng, tier, focus, budget, broken):
    viol_ = []
    sets, nb = _sets(ctx, rng, tier)
    ops = [f"multipoly {len(c)} " + " ".join(gen.hx(x) for x in c) for _, c in sets]
    out = ctx.c(ops, tag="mp")
    stats = {}
    nloops = 0
    nmodel = 0
    for (kind, cells), o, a in zip(sets, ops, out):
        key = f"mp:{kind}:{gen.hx(min(cells))}:{len(cells)}"
        nviol0 = len(viol_)
        bo = ctx.c([x for h in cells for x in (f"boundary {gen.hx(h)}", f"area {gen.hx(h)}")], tag="mpb")
        bverts, asum = [], 0.0
        polar = False
        carea = {}
        cbd = {}
        for i in range(len(cells)):
            if ok(bo[2 * i]):
                bd = parse_boundary(bo[2 * i])
                cbd[cells[i]] = bd
                bverts += bd
                if max(abs(la) for la, _ in bd) > 1.5:
                    polar = True
            if ok(bo[2 * i + 1]):
                carea[cells[i]] = bits2f(bo[2 * i + 1].split()[1])
                asum += carea[cells[i]]
        if polar:
            continue
        stats[kind] = stats.get(kind, 0) + 1
        if not ok(a):
            # a failure is the recorded finding (missed edge cancellation by _hashVertex: stray 1- and 2-vertex loops make
            # normalizeMultiPolygon give up) exactly when two almost-equal boundary vertices of this set hash apart
            fkey = "hashVertex-split" if hash_split(bverts, (cells[0] >> 52) & 15, len(cells)) else key
            viol_.append(viol("cellsToLinkedMultiPolygon failed on distinct valid same-resolution cells", o[:300], "success", a, key=fkey))
            continue
        t = a.split()
        tail = dict(x.split("=") for x in t if "=" in x)
        if tail.get("live") != "0" or tail.get("badfree") != "0":
            viol_.append(viol("destroyLinkedMultiPolygon did not release everything / freed twice", o[:300], "live=0 badfree=0", a[-40:], key=key))
        pos = 1
        npoly = int(t[pos]); pos += 1
        polys = []
        for _ in range(npoly):
            nl = int(t[pos]); pos += 1
            loops = []
            for _ in range(nl):
                nv = int(t[pos]); pos += 1
                pts = [(bits2f(t[pos + 2 * i]), bits2f(t[pos + 2 * i + 1])) for i in range(nv)]
                pos += 2 * nv
                loops.append(pts)
            polys.append(loops)
        comps = components(cells, nb)
        if npoly != len(comps):
            viol_.append(viol("number of polygons differs from the number of edge-connected components", o[:300], len(comps), npoly, key=key))
        # per component: chart centre and chart area of its cells
        cinfo = []
        for comp in comps:
            pts = [p for c in comp for p in cbd.get(c, [])]
            cvv = vnorm(tuple(sum(x) for x in zip(*[ll2v(*p) for p in pts])))
            cinfo.append((cvv, sum(proj_area(cbd[c], cvv) for c in comp if c in cbd), comp))
        vowner = {}
        for ci, (_, _, comp) in enumerate(cinfo):
            for c in comp:
                for p in cbd.get(c, []):
                    vowner[p] = ci
        used = set()
        for loops in polys:
            if not loops or len(loops[0]) < 3:
                viol_.append(viol("a loop has fewer than three vertices", o[:300], ">= 3", len(loops[0]) if loops else 0, key=key))
                continue
            # component of this polygon: owner of a vertex of its outer loop
            p0 = loops[0][0]
            ci = vowner.get(p0)
            if ci is None:
                q = min(vowner, key=lambda q: gc_dist(p0, q))
                if gc_dist(p0, q) > 1e-12:
                    viol_.append(viol("a loop vertex is not a boundary vertex of an input cell", o[:300], "cell vertex", p0, key=key))
                    continue
                ci = vowner[q]
            cvv, carea_chart, comp = cinfo[ci]
            if ci in used:
                viol_.append(viol("two polygons for one edge-connected component", o[:300], "one polygon per component", "two", key=key))
            used.add(ci)
            net = 0.0
            for li, lp in enumerate(loops):
                nloops += 1
                if len(lp) < 3:
                    viol_.append(viol("a loop has fewer than three vertices", o[:300], ">= 3", len(lp), key=key))
                    continue
                ar = proj_area(lp, cvv)
                if li == 0 and ar <= 0:
                    viol_.append(viol("outer loop is not counter-clockwise", o[:300], "positive area", ar, key=key))
                if li > 0 and ar >= 0:
                    viol_.append(viol("hole is not clockwise", o[:300], "negative area", ar, key=key))
                net += ar
                for p in lp[:: max(1, len(lp) // 12)]:
                    if p not in vowner and min(gc_dist(p, q) for q in bverts) > 1e-12:
                        viol_.append(viol("a loop vertex is not a boundary vertex of an input cell", o[:300], "cell vertex", p, key=key))
                        break
            # the same corner computed from two cells differs by rounding (up to ~1e-15 rad; the library matches them with
            # geoAlmostEqual), which leaves slivers of relative size ~1e-15 / edge length between the loops and the cells
            res_ = (cells[0] >> 52) & 15
            if abs(net - carea_chart) > (1e-9 + 1.2e-14 / EDGE[res_]) * carea_chart:
                viol_.append(viol("a polygon's enclosed area (outer loop minus its holes) differs from the area of its "
                                  "component's cells (holes attached to the wrong outer loop / edges lost)", o[:300],
                                  repr(carea_chart), repr(net), key=key))
        # loop structure against the model (exact vertex identities = canonical vertex indexes; Class II resolutions,
        # where a cell boundary is exactly its topological vertexes)
        res_ = (cells[0] >> 52) & 15
        if ctx.prep.model and res_ % 2 == 0 and len(cells) <= 400:
            nmodel += 1
            vo = ctx.c([f"c2vs {gen.hx(c)}" for c in cells], tag="mpv")
            ids = sorted({int(x, 16) for a_ in vo if ok(a_) for x in a_.split()[2:] if x != "0"})
            vl = ctx.c([f"v2ll {gen.hx(v)}" for v in ids], tag="mpvl")
            vpos = [(v, (bits2f(a_.split()[1]), bits2f(a_.split()[2]))) for v, a_ in zip(ids, vl) if ok(a_)]
            def vid(p):
                best = min(vpos, key=lambda q: abs(q[1][0] - p[0]) + min(abs(q[1][1] - p[1]), 2 * math.pi - abs(q[1][1] - p[1])))
                return best[0] if gc_dist(best[1], p) < 1e-10 else None
            def canon(lp):
                i = lp.index(min(lp))
                return tuple(lp[i:] + lp[:i])
            cl = []
            bad = False
            for loops in polys:
                for lp in loops:
                    idl = [vid(p) for p in lp]
                    if None in idl:
                        bad = True
                    else:
                        cl.append(canon(idl))
            ma = ctx.m([f"mploops {len(cells)} " + " ".join(gen.hx(x) for x in cells)], tag="mpm")[0]
            if ok(ma) and not bad:
                t_ = ma.split()
                pos_ = 2
                ml = []
                for _ in range(int(t_[1])):
                    n_ = int(t_[pos_]); pos_ += 1
                    ml.append(canon([int(x, 16) for x in t_[pos_:pos_ + n_]])); pos_ += n_
                if sorted(ml) != sorted(cl):
                    viol_.append(viol("the loops of cellsToLinkedMultiPolygon differ from the model's (edge cancellation + loop "
                                      "extraction over canonical vertex indexes)", o[:300],
                                      f"{len(ml)} loops of sizes {sorted(len(x) for x in ml)}",
                                      f"{len(cl)} loops of sizes {sorted(len(x) for x in cl)}", key=key))
            elif bad:
                viol_.append(viol("a loop vertex is not a vertex (cellToVertex/vertexToLatLng) of an input cell", o[:300],
                                  "cell vertexes", "unmatched", key=key))
        if len(viol_) > nviol0 and hash_split(bverts, (cells[0] >> 52) & 15, len(cells)):
            # attribute this set's violations to the recorded finding (missed edge cancellation by _hashVertex)
            for v in viol_[nviol0:]:
                v["key"] = "hashVertex-split"
        if len([v for v in viol_ if v.get("key") != "hashVertex-split"]) >= 12:
            break
    if os.environ.get("VERIF_DEBUG16"):
        open("/var/tmp/dbg16.json", "w").write(json.dumps([{k: str(v)[:300] for k, v in x.items()} for x in viol_], indent=1))
    # violations attributed to the recorded finding last: the cut below must never hide a new one behind them
    viol_ = [v for v in viol_ if v.get("key") != "hashVertex-split"] + [v for v in viol_ if v.get("key") == "hashVertex-split"]
    return {"evaluations": len(ops), "violations": viol_[:20], "distinct": [o[:120] for o in ops],
            "coverage": {"sets": sum(stats.values()), "by_kind": stats, "loops": nloops, "sets_compared_with_model_loops": nmodel,
                         "resolutions": sorted({(c[0] >> 52) & 15 for _, c in sets})},
            "samples": [{"op": ops[0][:160], "c_answer": out[0][:160]}]}


def replay_verdict(rp, out):
    return True
