"""C06 — compactCells / uncompactCells are lossless, canonical and order-independent."""
import gen
from evalutil import *

ID = "C06"
LEVEL = "proof"
MODULES = ["H3Proofs.Props.C06", "H3Proofs.Props.C06Spec", "H3Proofs.Props.C06H3", "H3Proofs.Props.C06Hash", "H3Proofs.Props.C06Refine", "H3Proofs.Props.C06Final", "H3Proofs.Props.C06Total"]
THEOREMS = "auto"
ASSUMPTIONS = ["layout-faithful model of compactCells (hash table with parent % n probing, reserved-bit counters, "
               "exact output slots) and uncompactCells tied to the code by exact array correspondence"]
ASSUMPTIONS.append("the layout-faithful compactCells model (hash table with parent % n probing, reserved-bit counters, "
                   "pentagon adjustment, rounds) is PROVED to compute the canonical compaction whenever it returns successfully "
                   "(C06Final.compactCells_canonical: output = Compact h3Forest of the input set; lossless; every input cell under "
                   "exactly one output cell; no complete sibling family; order independent) - partial correctness")
ASSUMPTIONS.append("total correctness (C06Total.compactCells_total): on a duplicate-free array of valid cells of one resolution, with no "
                   "allocation failure, the model never takes an error branch (probe-limit E_FAILED, E_DUPLICATE_INPUT): occupancy / "
                   "pigeonhole argument on the open-addressing table, every round")
NOT_PROVED = ["inputs outside the precondition (mixed resolutions, invalid cells, duplicates): the theorems are stated for duplicate-free "
              "valid cells of one resolution; what the C function does elsewhere (error codes) is covered by exact correspondence only",
              "uncompactCells = concatenation of the children lists is by definition of the model (children theorems of C04 apply)"]
EXPLANATION = ("total correctness: on duplicate-free valid same-resolution input the layout-faithful hash-table model succeeds (no error branch, "
               "occupancy argument) and computes the canonical compaction "
               "(all sets, all orders, all allocation schedules), set-level theorems (lossless, antichain, no full family), "
               "bounds/error theorems; exact array correspondence of compactCells; the evaluator checks "
               "round trip, antichain, no complete sibling family, validity, size and order independence on the real "
               "library with a python digit-tree oracle")


def _sets(rng, tier):
    n = 60 if tier == "quick" else 500
    sets = [gen.rand_set(rng, maxsize=3000 if tier == "quick" else 30000) for _ in range(n)]
    for bc in (4, 20, 117):
        for r in (1, 2, 3):
            sets.append(gen.children(gen.mkcell(0, bc, []), r))
    sets.append([gen.mkcell(1, b, [d]) for b in range(122) for d in range(7) if not (b in gen.PENT_SET and d == 1)])  # all of res 1
    # fine resolutions inside pentagon base cells: hexagons whose digits are one non-zero digit and otherwise zeros (the
    # pentagon test of the child iterator reads the whole digit field), their complete families one and two levels down
    for _ in range(12 if tier == "quick" else 80):
        r = rng.randrange(7, 14)
        ds = [0] * r
        ds[rng.randrange(0, min(r, 4))] = rng.randrange(2, 7)
        top = gen.mkcell(r, rng.choice(gen.PENT), ds)
        fam = gen.children(top, r + rng.choice([1, 1, 2]))
        sib = gen.children(gen.mkcell(r, (top >> 45) & 127, ds[:-1] + [rng.randrange(1, 7)]), (fam[0] >> 52) & 15)
        sets.append(fam + sib[: rng.randrange(0, 4)])
    return sets


def _small_sets(rng, tier):
    """small sets with complete sub-trees at several depths (for the quadratic set-level specification)"""
    out = []
    for _ in range(150 if tier == "quick" else 1500):
        res = rng.randrange(0, 16)
        s = set()
        for _ in range(rng.randrange(1, 6)):
            if len(s) > 250:
                break
            depth = rng.choice([0, 0, 1, 1, 2, 2, 3]) if res > 0 else 0
            depth = min(depth, res)
            top = gen.rand_cell(rng, res=res - depth)
            if rng.random() < 0.3:   # a pentagon (all-zero digits below a pentagon base cell)
                top = gen.mkcell(res - depth, rng.choice(sorted(gen.PENT_SET)), [0] * (res - depth))
            kids = gen.children(top, res)
            if rng.random() < 0.5 and len(kids) > 1:   # incomplete family
                kids = rng.sample(kids, rng.randrange(1, len(kids)))
            s.update(kids)
        out.append(list(s)[:400])
    return out


def streams(rng, tier):
    ops, ops2 = [], []
    ops3 = []
    for s in _small_sets(rng, tier):
        rng.shuffle(s)
        ops3.append(f"compactS {len(s)} " + " ".join(gen.hx(c) for c in s))
    for s in _sets(rng, tier):
        for _ in range(2):
            rng.shuffle(s)
            ops.append(f"compact {len(s)} " + " ".join(gen.hx(c) for c in s))
    for s in _sets(rng, "quick")[:40]:
        if not s:
            continue
        t = s + [rng.choice(s)]
        ops2.append(f"compact {len(t)} " + " ".join(gen.hx(c) for c in t))
        t = s + [gen.malformed(rng)]
        rng.shuffle(t)
        ops2.append(f"compact {len(t)} " + " ".join(gen.hx(c) for c in t))
        t = s[:50] + [gen.rand_cell(rng)]
        ops2.append(f"compact {len(t)} " + " ".join(gen.hx(c) for c in t))
        res = (s[0] >> 52) & 15
        t = s[:20]
        for r in (res - 1, res, res + 1, res + 2, 16, -1):
            ops2.append(f"uncompactsize {len(t)} {' '.join(gen.hx(c) for c in t)} {r}")
            ops2.append(f"uncompact {len(t)} {' '.join(gen.hx(c) for c in t)} {r} {rng.randrange(0, 60)}")
        # mixed-resolution compacted sets in every kind of order (the per-cell checks of uncompactCells must not depend
        # on which cell comes first): coarse cells first, fine cells first, shuffled; targets below, between and above
        if res >= 2:
            coarse = []
            for c in s[:6]:
                for up in (1, 2):
                    pc = gen.parent(c, res - up)
                    if pc not in coarse and not any(gen.parent(x, res - up) == pc for x in s[6:12]):
                        coarse.append(pc)
            fine = [c for c in s[6:12] if not any(gen.parent(c, (a >> 52) & 15) == a for a in coarse)]
            if coarse and fine:
                for order in ("coarse-first", "fine-first", "shuffled"):
                    t = coarse + fine if order == "coarse-first" else fine + coarse
                    if order == "shuffled":
                        t = list(t); rng.shuffle(t)
                    for r in (res - 2, res - 1, res, res + 1):
                        if 0 <= r <= 15:
                            ops2.append(f"uncompactsize {len(t)} {' '.join(gen.hx(c) for c in t)} {r}")
                            ops2.append(f"uncompact {len(t)} {' '.join(gen.hx(c) for c in t)} {r} 400")
    ops2.append("compact 0")
    return [("compact", ops), ("compact-errors-uncompact", ops2), ("compact-vs-set-specification", ops3)]


def ancestors(h):
    res = (h >> 52) & 15
    return [gen.parent(h, p) for p in range(res)]


def evaluate(ctx, rng, tier, focus, budget, broken):
    sets = [s for s in _sets(rng, tier) if s]
    viol_ = []
    ops = []
    orders = []
    for s in sets:
        for k in range(3):
            t = list(s)
            rng.shuffle(t)
            orders.append((s, t))
            ops.append(f"compact {len(t)} " + " ".join(gen.hx(c) for c in t))
    out = ctx.c(ops, tag="eval")
    ops2, meta = [], []
    results = {}
    for i, ((s, t), a) in enumerate(zip(orders, out)):
        op = ops[i][:200]
        if not ok(a):
            viol_.append(viol("compactCells failed on a set of distinct valid same-resolution cells", ops[i], "success", a,
                              key="compact:" + gen.hx(s[0]) + f":{len(s)}"))
            continue
        comp = [c for c in parse_hs(a) if c != 0]
        S = set(s)
        res = (s[0] >> 52) & 15
        key = id(s)
        if key in results and results[key] != set(comp):
            viol_.append(viol("compactCells result depends on the input order", ops[i], "same set", "different set"))
        results[key] = set(comp)
        cs = set(comp)
        if len(cs) != len(comp) or any(not gen.layout_spec(c) or ((c >> 52) & 15) > res for c in comp):
            viol_.append(viol("compacted set contains duplicates / invalid cells / finer cells", ops[i], "valid distinct cells of res <= r", a[:200]))
            continue
        if any(anc in cs for c in comp for anc in ancestors(c)):
            viol_.append(viol("compacted set contains a cell together with one of its ancestors", ops[i], "antichain", a[:200]))
        # no complete sibling family
        fam = {}
        for c in comp:
            r = (c >> 52) & 15
            if r > 0:
                fam.setdefault(gen.parent(c, r - 1), []).append(c)
        for p, kids in fam.items():
            if len(kids) == (6 if gen.is_pentagon(p) else 7):
                viol_.append(viol("compacted set contains a complete set of siblings", ops[i], "canonical form", gen.hx(p)))
        exp_size = sum(gen.children_size(c, res) for c in comp)
        if exp_size != len(S):
            viol_.append(viol("compacted set does not cover exactly |S| cells", ops[i], len(S), exp_size))
        l = " ".join(gen.hx(c) for c in comp)
        ops2.append(f"uncompact {len(comp)} {l} {res} {len(S)}"); meta.append(("rt", S, i))
        ops2.append(f"uncompactsize {len(comp)} {l} {res}"); meta.append(("size", len(S), i))
        if len(S) > 0:
            ops2.append(f"uncompact {len(comp)} {l} {res} {len(S) - 1}"); meta.append(("bounds", None, i))
        if res > 0 and any(((c >> 52) & 15) == res for c in comp):
            ops2.append(f"uncompact {len(comp)} {l} {res - 1} {len(S)}"); meta.append(("mismatch", None, i))
        # the same rejection must not depend on where the too-fine cell stands: coarsest first, and every target between
        # the coarsest and the finest resolution present
        rs = sorted({(c >> 52) & 15 for c in comp})
        if len(rs) >= 2 and len(comp) <= 400:
            asc = sorted(comp, key=lambda c: ((c >> 52) & 15, c))
            la = " ".join(gen.hx(c) for c in asc)
            for r in sorted({rs[0], rs[-1] - 1, (rs[0] + rs[-1]) // 2}):
                if rs[0] <= r < rs[-1]:
                    ops2.append(f"uncompact {len(asc)} {la} {r} {len(S)}"); meta.append(("mismatch", None, i))
                    ops2.append(f"uncompactsize {len(asc)} {la} {r}"); meta.append(("mismatch-size", None, i))
        if len(viol_) >= 20:
            break
    out2 = ctx.c(ops2, tag="eval2")
    for o, (kind, want, i), a in zip(ops2, meta, out2):
        if kind == "rt":
            got = parse_hs(a) if ok(a) else None
            if got is None or set(got) != want or len(got) != len(want):
                viol_.append(viol("uncompactCells(compactCells(S)) != S", [ops[i], o], f"{len(want)} cells", a[:200]))
        elif kind == "size" and a != f"ok {want}":
            viol_.append(viol("uncompactCellsSize != |S|", [ops[i], o], f"ok {want}", a))
        elif kind == "bounds" and a != "err 14":
            viol_.append(viol("uncompactCells with capacity |S|-1 must give E_MEMORY_BOUNDS", o, "err 14", a[:100]))
        elif kind == "mismatch" and a != "err 12":
            viol_.append(viol("uncompactCells to a coarser resolution must give E_RES_MISMATCH", o, "err 12", a[:100]))
        elif kind == "mismatch-size" and a != "err 12":
            viol_.append(viol("uncompactCellsSize to a coarser resolution must give E_RES_MISMATCH", o, "err 12", a[:100]))
    return {"evaluations": len(ops) + len(ops2), "violations": viol_[:20], "distinct": [o[:300] for o in ops],
            "coverage": {"sets": len(sets), "orders_each": 3, "largest_set": max(len(s) for s in sets),
                         "resolutions": sorted({(s[0] >> 52) & 15 for s in sets if s})},
            "samples": [{"op": ops[0][:200], "c_answer": out[0][:200]}]}


def replay_verdict(rp, out):
    return True
