"""C18 — the library is re-entrant: concurrent calls equal sequential calls."""
import os, subprocess
import h3build

ID = "C18"
LEVEL = "proof"
MODULES = ["H3Proofs.Props.C18"]
THEOREMS = "auto"
FLAVORS = ("asan",)
ASSUMPTIONS = ["the access table H3.Gen.globals is extracted by tools/globals_scan.py from clang's AST of every "
               "library source (regenerated each run); aliasing through pointers the syntactic scan cannot follow "
               "and the real scheduler are outside the theorem",
               "the ThreadSanitizer run is supporting validation: it cannot show the absence of races"]
NOT_PROVED = ["that each C function only touches its arguments, its stack, its own heap blocks and the listed statics "
              "(the frame theorem covers statics; pointer aliasing is not modelled)"]
EXPLANATION = ("frame_ok (decide over the regenerated table of ALL objects with static storage and ALL syntactic "
               "accesses): nothing library-owned can be written; abstract theorem: any interleaving of steps that only "
               "read shared state equals the sequential runs; supporting: TSan run of mixed workloads on 2..16 threads "
               "compared byte-wise (hash) with a sequential run")
RULE = ("obligations: frame_ok over every static object; supporting runs: threads x seeds of the mixed workload in "
        "harness/conc.c; non-trivial = a run with >= 2 threads")


def streams(rng, tier):
    return []


def evaluate(ctx, rng, tier, focus, budget, broken):
    H = h3build.HARNESS
    viol_ = []
    runs = []
    try:
        exe, _ = h3build.build("tsan", main_src=os.path.join(H, "conc.c"), exe_name="conc",
                               extra_tus=[os.path.join(H, "valloc_mt.c")])
    except h3build.BuildError as e:
        return {"evaluations": 0, "violations": [{"what": "concurrency harness does not build", "ops": ["build conc"],
                                                  "expected": "build", "observed": str(e)[:500], "key": "conc-build"}],
                "coverage": {}}
    plan = [(2, 1), (4, 2), (8, 3), (16, 4)] if tier == "quick" else [(n, s) for n in (2, 3, 4, 8, 12, 16) for s in range(1, 9)]
    if broken:
        plan = plan + [(8, s) for s in range(10, 10 + 6 * budget)]
    iters = 120 if tier == "quick" else 400
    env = dict(os.environ)
    env["TSAN_OPTIONS"] = "halt_on_error=1:exitcode=66:report_signal_unsafe=0"
    for nt, seed in plan:
        sd = seed + 100 * ctx.seed
        r = subprocess.run([exe, str(nt), str(sd), str(iters)], capture_output=True, text=True, env=env)
        runs.append({"threads": nt, "seed": sd, "rc": r.returncode, "out": r.stdout.strip()[:100]})
        if r.returncode == 0 and nt >= 4:
            # the same jobs with the threads started first in a fresh process (state that is initialised lazily on
            # first use is then first touched concurrently), against a purely sequential process
            rp = subprocess.run([exe, str(nt), str(sd), str(iters), "par"], capture_output=True, text=True, env=env)
            rs = subprocess.run([exe, str(nt), str(sd), str(iters), "seq"], capture_output=True, text=True, env=env)
            runs.append({"threads": nt, "seed": sd, "rc": rp.returncode, "out": "threads-first " + rp.stdout.strip()[:40]})
            if rp.returncode != 0 or rp.stdout != rs.stdout:
                r = rp
                if rp.returncode == 0:
                    r.returncode = 1
                    r.stdout = "threads-first hashes differ from the sequential process: " + rp.stdout.strip()[:200] + " vs " + rs.stdout.strip()[:200]
        if r.returncode != 0:
            what = "ThreadSanitizer reported a data race" if "ThreadSanitizer" in r.stderr else \
                   "a thread's results differ from the sequential run of the same calls"
            import re
            m = re.search(r"(Location is global '[^']+'[^\n]*|Previous (?:write|read)[^\n]*\n[^\n]*\n)", r.stderr)
            viol_.append({"what": what, "ops": [f"conc {nt} {sd} {iters}"], "expected": "ok, no race report",
                          "observed": (r.stdout.strip() + " " + (m.group(1) if m else r.stderr[-400:]))[:600],
                          "key": f"conc:{what[:20]}"})
            if len(viol_) >= 3:
                break
    return {"evaluations": len(runs), "violations": viol_,
            "distinct": [f"conc {r['threads']} {r['seed']}" for r in runs],
            "coverage": {"runs": runs, "iterations_per_thread": iters},
            "samples": runs[:3]}


def replay_verdict(rp, out):
    return True
