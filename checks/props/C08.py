"""C08 — cell boundaries tile the sphere: shared edges coincide, areas sum to 4*pi."""
import math
import gen
from evalutil import *
from props.C03 import edge_points, azimuth_points

ID = "C08"
LEVEL = "other"
MODULES = ["H3Proofs.Props.C08"]
THEOREMS = "auto"
TECHNIQUE = ("Lean 4 theorem: neighbouring cells list identical substrate-grid points for their shared edge (all "
             "coordinates, all resolutions) + correspondence of the integer vertex functions; the geometric clauses "
             "(1e-12 coincidence, CCW, areas, sum = 4 pi) are a differential run on the real library")
ASSUMPTIONS = ["projection of substrate points to lat/lng and great-circle areas are transcendental double "
               "arithmetic: evaluated, not proved"]
NOT_PROVED = ["coincidence within 1e-12 rad after projection / across icosahedron faces", "CCW order, centre inside",
              "cellAreaRads2 = enclosed area, sum over a resolution = 4 pi, km2/m2 scaling"]
EXPLANATION = ("integer topology proved (shared_edge_same_substrate_points); evaluator on complete coarse resolutions "
               "(sum of areas), pentagons and their neighbours and icosahedron-edge cells at every resolution")
EARTH_R = 6371.007180918475


def _cells(ctx, rng, tier):
    cells = []
    nb = Neigh(ctx)
    for res in range(16):
        for bc in gen.PENT:
            if res < 3 or bc in (4, 38, 117):
                p = gen.mkcell(res, bc, [0] * res)
                nb.fetch([p])
                cells.append(p)
                cells += (nb.cache[p] or [])
    pts, _ = edge_points(ctx, rng, 20 if tier == "quick" else 300)
    ops = []
    for la, ln in pts:
        ops.append(f"ll2c {f2bits(la)} {f2bits(ln)} {rng.randrange(16)}")
        ops.append(f"ll2c {f2bits(la)} {f2bits(ln)} {rng.choice([1, 3, 5, 7, 9, 11, 13, 15])}")
    for a in ctx.c(ops, tag="edgecells"):
        if ok(a):
            cells.append(int(a.split()[1], 16))
    # cells where the meridian through a face centre crosses the face edge (azimuth 0 / pi special cases of the
    # inverse projection meet the two-face computation of shared distortion vertices), finest resolutions
    apts = azimuth_points(ctx)
    if tier == "quick":
        apts = rng.sample(apts, min(len(apts), 160))
    ops = [f"ll2c {f2bits(la)} {f2bits(ln)} {r}" for la, ln in apts for r in ((15, 14) if tier == "quick" else (15, 14, 13, 12, 11))]
    az = []
    for a in ctx.c(ops, tag="azcells"):
        if ok(a):
            az.append(int(a.split()[1], 16))
    az = list(dict.fromkeys(az))
    nb.fetch(az)
    for h in az:
        cells.append(h)
        cells += (nb.cache[h] or [])
    # the cells at the 20 face centres and their neighbours (the projection's radial distance r -> 0 there: special
    # cases for "at the face centre" must not swallow the vertices of the finest cells)
    a = ctx.c(["facecenters"], tag="fc")[0].split()
    ops = [f"ll2c {a[2 + 2 * i]} {a[3 + 2 * i]} {r}" for i in range(20)
           for r in ((15, 14, 12) if tier == "quick" else range(8, 16))]
    fcs = [int(x.split()[1], 16) for x in ctx.c(ops, tag="fccells") if ok(x)]
    nb.fetch(fcs)
    for h in fcs:
        cells.append(h)
        cells += (nb.cache[h] or [])
    for _ in range(200 if tier == "quick" else 3000):
        cells.append(gen.rand_cell(rng))
    return list(dict.fromkeys(cells)), nb


def streams(rng, tier):
    ops = []
    for _ in range(3000 if tier == "quick" else 40000):
        ops.append(f"verts {gen.hx(gen.rand_cell(rng))}")
    for res in range(16):
        for bc in gen.PENT:
            ops.append(f"verts {gen.hx(gen.mkcell(res, bc, [0] * res))}")
    for _ in range(4000):
        ops.append(f"overage {rng.randrange(20)} {rng.randrange(0, 400)} {rng.randrange(0, 400)} {rng.randrange(0, 400)} "
                   f"{rng.choice([0, 2, 4, 6])} {rng.randrange(2)} {rng.randrange(2)}")
    return [("substrate-vertices", ops)]


def enclosed_area(centre, bd):
    c = ll2v(*centre)
    vs = [ll2v(*b) for b in bd]
    rmax = max(ang_dist_v(c, v) for v in vs)
    if rmax > 2e-3:
        return abs(sph_polygon_area(vs)), 1e-9
    a = (0.0, 0.0, 1.0) if abs(c[2]) < 0.9 else (1.0, 0.0, 0.0)
    e1 = vnorm(vcross(a, c)); e2 = vcross(c, e1)
    us = [(vdot(vsub(v, c), e1), vdot(vsub(v, c), e2)) for v in vs]
    s = 0.0
    for i in range(len(us)):
        x1, y1 = us[i]; x2, y2 = us[(i + 1) % len(us)]
        s += x1 * y2 - x2 * y1
    return abs(s) / 2, 2e-5


def evaluate(ctx, rng, tier, focus, budget, broken):
    viol_ = []
    cells, nb = _cells(ctx, rng, tier)
    for o in focus:
        try:
            h = int(o.split()[1], 16)
            if gen.layout_spec(h):
                cells.insert(0, h)
        except (ValueError, IndexError):
            pass
    nb.fetch(cells)
    need = list(dict.fromkeys(cells + [x for h in cells for x in (nb.cache.get(h) or [])]))
    ops = []
    for h in need:
        ops += [f"boundary {gen.hx(h)}", f"c2ll {gen.hx(h)}", f"area {gen.hx(h)}"]
    out = ctx.c(ops, tag="eval")
    B, C, A = {}, {}, {}
    for i, h in enumerate(need):
        ab, ac, aa = out[3 * i: 3 * i + 3]
        if ok(ab):
            B[h] = parse_boundary(ab)
        else:
            viol_.append(viol("cellToBoundary failed on a valid cell", ops[3 * i], "success", ab))
        if ok(ac):
            C[h] = (bits2f(ac.split()[1]), bits2f(ac.split()[2]))
        if ok(aa):
            A[h] = [bits2f(x) for x in aa.split()[1:4]]
        else:
            viol_.append(viol("cellArea failed on a valid cell", ops[3 * i + 2], "success", aa))
    ndist = 0
    for h in cells:
        if h not in B or h not in C:
            continue
        bd, cen = B[h], C[h]
        pent = gen.is_pentagon(h)
        res = (h >> 52) & 15
        n = len(bd)
        okn = (n in (5, 10) if pent else (n == 6 if res % 2 == 0 else 6 <= n <= 8))
        if pent and ((res % 2 == 0 and n != 5) or (res % 2 == 1 and n != 10)):
            okn = False
        if not okn:
            viol_.append(viol("wrong number of boundary vertices", f"boundary {gen.hx(h)}", "6 (..8 odd res) / 5 or 10", n))
        if n > 6 and not pent:
            ndist += 1
        c = ll2v(*cen)
        vs = [ll2v(*b) for b in bd]
        # counter-clockwise around the centre, centre strictly inside
        for i in range(n):
            a_, b_ = vs[i], vs[(i + 1) % n]
            s = vdot(c, vcross(a_, b_))
            if s <= 0:
                viol_.append(viol("boundary not counter-clockwise around the centre / centre not strictly inside",
                                  f"boundary {gen.hx(h)}", "positive orientation at every edge", f"edge {i}: {s:.3g}"))
                break
        # every boundary vertex coincides with a vertex of a neighbour (1e-12 rad)
        nbs = [x for x in (nb.cache.get(h) or []) if x in B]
        if nbs:
            for i, p in enumerate(bd):
                d = min(gc_dist(p, q) for x in nbs for q in B[x])
                if d > 1e-12:
                    viol_.append(viol("a boundary vertex does not coincide with any neighbour's vertex within 1e-12 rad",
                                      [f"boundary {gen.hx(h)}"] + [f"boundary {gen.hx(x)}" for x in nbs[:6]],
                                      "shared vertex", f"vertex {i}: nearest {d:.3g} rad"))
                    break
            # each neighbour shares a stretch of >= 2 vertices, traversed in reverse
            for x in nbs:
                shared = [i for i, p in enumerate(bd) if min(gc_dist(p, q) for q in B[x]) <= 1e-12]
                if len(shared) < 2:
                    viol_.append(viol("a cell shares fewer than two boundary vertices with a neighbour",
                                      [f"boundary {gen.hx(h)}", f"boundary {gen.hx(x)}"], ">= 2", len(shared)))
                    break
        # area
        if h in A:
            r2, km2, m2 = A[h]
            exp, tol = enclosed_area(cen, bd)
            if not (r2 == r2) or abs(r2 - exp) > tol * exp:
                viol_.append(viol("cellAreaRads2 differs from the area enclosed by the boundary", f"area {gen.hx(h)}", repr(exp), repr(r2)))
            if not (abs(km2 - r2 * EARTH_R * EARTH_R) <= 1e-12 * km2 and abs(m2 - km2 * 1e6) <= 1e-12 * m2):
                viol_.append(viol("cellAreaKm2 / cellAreaM2 are not the area scaled by the squared Earth radius",
                                  f"area {gen.hx(h)}", f"{r2 * EARTH_R * EARTH_R!r}", f"{km2!r} {m2!r}"))
        if len(viol_) >= 20:
            break
    # sum of areas over complete resolutions = 4 pi
    sums = {}
    for r in range(0, 3 if tier == "quick" else 5):
        allc = []
        for bc in range(122):
            allc += gen.children(gen.mkcell(0, bc, []), r)
        o2 = ctx.c([f"area {gen.hx(h)}" for h in allc], tag=f"sum{r}")
        tot = math.fsum(bits2f(a.split()[1]) for a in o2 if ok(a))
        sums[r] = tot
        if abs(tot - 4 * math.pi) > 1e-9 or not all(ok(a) for a in o2):
            viol_.append(viol(f"areas of all res-{r} cells do not sum to 4 pi", f"area <all {len(allc)} cells of res {r}>",
                              repr(4 * math.pi), repr(tot), key=f"areasum:{r}"))
    return {"evaluations": len(ops), "violations": viol_[:20], "distinct": ops[::3],
            "coverage": {"cells": len(cells), "with_neighbours": len(need), "hexagons_with_distortion_vertices": ndist,
                         "pentagons": sum(1 for h in cells if gen.is_pentagon(h)), "area_sums": sums},
            "samples": [{"op": ops[i], "c_answer": out[i][:160]} for i in (0, 2)]}


def replay_verdict(rp, out):
    return True
