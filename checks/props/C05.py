"""C05 — gridDisk family equals breadth-first search on a symmetric neighbour graph."""
import gen
from evalutil import *

ID = "C05"
LEVEL = "proof"
MODULES = ["H3Proofs.Props.C05", "H3Proofs.Props.C05Neighbor", "H3Proofs.Props.C05Bfs", "H3Proofs.Props.C05Symm", "H3Proofs.Props.C05Array", "H3Proofs.Props.C05Mode", "H3Proofs.Props.C05Valid", "H3Proofs.Props.C05Valid2", "H3Proofs.Props.C05Pent", "H3Proofs.Props.C05Res1a", "H3Proofs.Props.C05Res1b", "H3Proofs.Props.C05Ring", "H3Proofs.Props.C05All", "H3Proofs.Props.C05Gen", "H3Proofs.Props.C13Gen"]
THEOREMS = "auto"
ASSUMPTIONS = ["hand-written model of h3NeighborRotations, _gridDiskDistancesInternal (array-faithful), the unsafe "
               "ring walks, gridRingUnsafe and areNeighborCells, tied to the code by exact correspondence (slot "
               "layout and ring order included)"]
ASSUMPTIONS.append('_h3RotatePent60ccw / _h3RotatePent60cw (with _h3LeadingNonZeroDigit, _h3Rotate60ccw/cw, _rotate60ccw/cw) and isPentagon, the bit-level helpers of h3NeighborRotations, are translated from the C text on every run and PROVED equal to the model functions for all 2^64 values (C05Gen, C01Lnz, C01Rot, C04Gen)')
NOT_PROVED = ["symmetry / distinctness / count (six) of neighbours for steps that cross a base-cell boundary or run inside a pentagon base cell at resolutions >= 2 (empirical rotation tables): unbounded theorems exist for steps that stay inside a hexagon base cell, at every resolution (C05Symm), for the twelve pentagons themselves at every resolution (C05Pent: exactly five distinct neighbours, K step = E_PENTAGON), and complete resolutions 0 and 1 are decided in the kernel (C05Pent.res0_*, C05Res1a/b: family results); elsewhere correspondence + evaluator",
              "termination-with-success of the safe disk (that its probing never reports E_FAILED): the BFS theorem is partial correctness (whenever gridDiskDistancesSafe returns, its buffers are the BFS disk)",
              "the unsafe ring walks (gridDiskDistancesUnsafe, gridRingUnsafe) = the disk in ring order whenever they succeed: correspondence + evaluator only (finding F7 lives here)"]
EXPLANATION = ("every successful neighbour step, from any cell, in any direction, at any resolution, through every pentagon special case and across base-cell boundaries, returns a valid cell of the same resolution (C05Valid2.h3NeighborRotations_valid, full layout incl. the pentagon clause); the array-faithful gridDiskDistancesSafe (open-addressing slots, in-place distance updates) is breadth-first search over that neighbour function for every origin with the cell mode, exact distances and one slot per cell (C05Mode.gridDiskDistancesSafe_bfs, partial correctness); everything it writes is a valid cell of the origin's resolution (walk_valid); size formula / validation / base-cell table theorems; Theorem A (digit tables = aperture-7 addition), uniqueness of digit expansions, symmetric and pairwise distinct neighbours inside hexagon base cells at every resolution; the safe disk algorithm is BFS for any neighbour function; correspondence of "
               "all seven disk/ring functions; the evaluator checks gridDisk k against a breadth-first search over "
               "the library's own k=1 disks, symmetry, areNeighborCells, and unsafe = safe-or-error")


def _origins(rng, tier):
    cells = []
    for res in range(16):
        for bc in gen.PENT:
            if res < 4 or bc in (4, 38, 117):
                cells.append(gen.mkcell(res, bc, [0] * res))
                if res > 0:
                    for d in (2, 3, 4, 5, 6):
                        ds = [0] * res; ds[-1] = d
                        if rng.random() < 0.4:
                            cells.append(gen.mkcell(res, bc, ds))
    for _ in range(150 if tier == "quick" else 1500):
        cells.append(gen.rand_cell(rng))
    # base-cell seams: all-d digit strings reach the border of the base cell
    for res in (1, 2, 3, 5, 8, 12, 15):
        for d in range(1, 7):
            cells.append(gen.mkcell(res, rng.choice([0, 20, 33, 64, 100, 121]), [d] * res))
    return list(dict.fromkeys(cells))


def streams(rng, tier):
    ops = []
    for h in _origins(rng, tier):
        x = gen.hx(h)
        for d in range(0, 7):
            ops.append(f"nbr {x} {d} {rng.randrange(6)}")
        k = rng.randrange(0, 4)
        ops += [f"diskmap {x} {rng.randrange(0, 4)}", f"disk {x} {k}", f"disksafe {x} {rng.randrange(0, 3)}", f"diskunsafe {x} {k}", f"ring {x} {k}", f"disk0 {x} 1"]
    for r, kmax in ((0, 12), (1, 30)):
        for _ in range(2):
            ops.append(f"disk {gen.hx(gen.rand_cell(rng, res=r))} {rng.randrange(5, kmax)}")
    ops += [f"maxdisk {k}" for k in (-5, -1, 0, 1, 2, 100, 13780509, 13780510, 13780511, 2147483647)]
    # gridDisksUnsafe: batches with a failing (pentagon) cell first / in the middle / last / absent
    for _ in range(40 if tier == "quick" else 400):
        cs = [gen.rand_cell(rng) for _ in range(rng.randrange(1, 5))]
        if rng.random() < 0.6:
            r_ = rng.randrange(0, 16)
            ds_ = [0] * r_
            if r_ and rng.random() < 0.5:
                ds_[-1] = rng.randrange(2, 7)
            cs.insert(rng.randrange(len(cs) + 1), gen.mkcell(r_, rng.choice(gen.PENT), ds_))
        ops.append(f"disksunsafe {rng.randrange(-1, 3)} {len(cs)} " + " ".join(gen.hx(c) for c in cs))
    ops2 = []
    for _ in range(400):
        m = gen.malformed(rng)
        ops2 += [f"nbr {gen.hx(m)} {rng.randrange(9)} {rng.randrange(7)}", f"disk0 {gen.hx(m)} {rng.randrange(0, 3)}",
                 f"ring {gen.hx(m)} {rng.randrange(0, 3)}", f"diskunsafe {gen.hx(m)} {rng.randrange(-1, 3)}"]
    return [("traversal", ops), ("traversal-malformed", ops2)]


def evaluate(ctx, rng, tier, focus, budget, broken):
    viol_ = []
    nb = Neigh(ctx)
    origins = _origins(rng, tier)
    for o in focus:
        t = o.split()
        try:
            h = int(t[1], 16)
            if gen.layout_spec(h):
                origins.insert(0, h)
        except (ValueError, IndexError):
            pass
    origins = origins[: (500 if tier == "quick" else 3000) * budget]
    nb.fetch(origins)
    # 1. six / five distinct valid same-resolution neighbours, symmetry
    allnb = []
    for h in origins:
        n = nb.cache[h]
        if n is None:
            viol_.append(viol("gridDisk(k=1) failed on a valid cell", f"disk {gen.hx(h)} 1", "success", "error"))
            continue
        want = 5 if gen.is_pentagon(h) else 6
        if len(set(n)) != want or any(not gen.layout_spec(x) or ((x >> 52) & 15) != ((h >> 52) & 15) for x in n):
            viol_.append(viol(f"a cell must have exactly {want} distinct valid same-resolution neighbours",
                              f"disk {gen.hx(h)} 1", want, [gen.hx(x) for x in n]))
        allnb += n
    # gridDisk itself (the function the statement names), k = 1: seven slots, the origin once, each neighbour once
    ops1 = [f"disk0 {gen.hx(h)} 1" for h in origins]
    out1 = ctx.c(ops1, tag="eval_disk1")
    for h, o, a in zip(origins, ops1, out1):
        if not ok(a):
            viol_.append(viol("gridDisk(k=1) failed on a valid cell", o, "success", a)); continue
        slots = parse_hs(a)
        cells = [c for c in slots if c != 0]
        want = 5 if gen.is_pentagon(h) else 6
        if len(slots) != 7 or len(cells) != len(set(cells)) or cells.count(h) != 1 or len(cells) != want + 1 \
                or (nb.cache[h] is not None and set(cells) - {h} != set(nb.cache[h])):
            viol_.append(viol(f"gridDisk(k=1) must return the origin and its {want} neighbours, each exactly once, in 7 slots",
                              o, f"{want + 1} distinct cells", a[:300]))
    nb.fetch(allnb)
    for h in origins:
        for x in (nb.cache[h] or []):
            if nb.cache.get(x) is not None and h not in nb.cache[x]:
                viol_.append(viol("adjacency is not symmetric", [f"disk {gen.hx(h)} 1", f"disk {gen.hx(x)} 1"],
                                  f"{gen.hx(h)} in neighbours of {gen.hx(x)}", "missing"))
    # 2. areNeighborCells agrees with the k=1 disks
    ops, exp = [], []
    for h in origins[:200]:
        for x in (nb.cache[h] or []):
            ops.append(f"areneighbors {gen.hx(h)} {gen.hx(x)}"); exp.append("ok 1")
            for y in (nb.cache.get(x) or [])[:3]:
                if y != h and y not in (nb.cache[h] or []):
                    ops.append(f"areneighbors {gen.hx(h)} {gen.hx(y)}"); exp.append("ok 0")
        ops.append(f"areneighbors {gen.hx(h)} {gen.hx(h)}"); exp.append("ok 0")
    out = ctx.c(ops, tag="eval_an")
    for o, e, a in zip(ops, exp, out):
        if a != e:
            viol_.append(viol("areNeighborCells disagrees with the neighbour graph", o, e, a))
    # 3. disk k = BFS, exact distances, no duplicates, within maxGridDiskSize; unsafe = same or error
    ops = []
    plan = []
    for h in origins[:120 * budget]:
        k = rng.randrange(0, 4 if ((h >> 52) & 15) > 1 else 6)
        plan.append((h, k))
    for r, k in ((0, 10), (0, 25), (1, 27), (1, 14), (2, 9)):
        plan.append((gen.rand_cell(rng, res=r), k))    # wraps (more than) half the globe at res 0/1
    # rings / unsafe disks that reach the far side of the globe at the coarsest resolutions: every k around the
    # point where the ring starts to wrap (res 0: k 4..8; res 1: k 10..13), several origins each
    for _ in range(6 * budget if tier == "quick" else 40 * budget):
        plan.append((gen.rand_cell(rng, res=0), rng.randrange(3, 9)))
    for _ in range(3 * budget if tier == "quick" else 20 * budget):
        plan.append((gen.rand_cell(rng, res=1), rng.randrange(9, 14)))
    for h, k in plan:
        x = gen.hx(h)
        ops += [f"disk {x} {k}", f"disksafe {x} {k}", f"diskunsafe {x} {k}", f"ring {x} {k}", f"disk0 {x} {k}"]
    out = ctx.c(ops, tag="eval_disk")
    ndisk = 0
    for i, (h, k) in enumerate(plan):
        bfs = nb.bfs(h, k)
        if bfs is None:
            continue
        a_disk, a_safe, a_unsafe, a_ring, a_disk0 = out[5 * i: 5 * i + 5]
        size = 3 * k * (k + 1) + 1
        for name, a in (("gridDiskDistances", a_disk), ("gridDiskDistancesSafe", a_safe)):
            if not ok(a):
                viol_.append(viol(f"{name} failed on a valid cell", ops[5 * i], "success", a)); continue
            pairs = [(c, d) for c, d in parse_pairs(a) if c != 0]
            got = dict(pairs)
            if len(pairs) != len(got) or len(parse_pairs(a)) != size:
                viol_.append(viol(f"{name}: duplicates or wrong buffer size", ops[5 * i], f"{len(bfs)} distinct cells in {size} slots", a[:200]))
            elif got != bfs:
                miss = [gen.hx(c) for c in bfs if c not in got][:3]
                extra = [gen.hx(c) for c in got if c not in bfs][:3]
                wrongd = [(gen.hx(c), got[c], bfs[c]) for c in got if c in bfs and got[c] != bfs[c]][:3]
                viol_.append(viol(f"{name} differs from breadth-first search over the k=1 neighbour graph", ops[5 * i],
                                  f"{len(bfs)} cells with exact distances", f"missing {miss} extra {extra} wrong-distance {wrongd}"))
            ndisk += 1
        if ok(a_disk0):
            lst0 = [c for c in parse_hs(a_disk0) if c != 0]
            got0 = set(lst0)
            if len(lst0) != len(got0) or len(parse_hs(a_disk0)) != size:
                viol_.append(viol("gridDisk: duplicates or wrong buffer size", ops[5 * i + 4], f"{len(bfs)} distinct cells in {size} slots", a_disk0[:200]))
            elif got0 != set(bfs):
                viol_.append(viol("gridDisk differs from breadth-first search", ops[5 * i + 4], len(bfs), len(got0)))
        else:
            viol_.append(viol("gridDisk failed on a valid cell", ops[5 * i + 4], "success", a_disk0))
        if ok(a_unsafe):
            pairs = parse_pairs(a_unsafe)
            ring_order_ok = all(pairs[j][1] <= pairs[j + 1][1] for j in range(len(pairs) - 1))
            if dict(pairs) != bfs or len(pairs) != len(bfs) or not ring_order_ok:
                viol_.append(viol("gridDiskDistancesUnsafe succeeded with something else than the disk in ring order",
                                  ops[5 * i + 2], f"{len(bfs)} cells", a_unsafe[:200]))
        if ok(a_ring):
            got = parse_hs(a_ring)
            exp_ring = {c for c, d in bfs.items() if d == k}
            if set(got) != exp_ring or len(got) != len(exp_ring):
                # known finding F7: the walk closes (holonomy cancels) around pentagons it never touches
                # (the unchanged walk returns E_PENTAGON as soon as it visits a pentagon, so a successful ring that
                # contains a pentagon cell is never this finding)
                enclosed = (any(gen.is_pentagon(c_) and d_ < k for c_, d_ in bfs.items())
                            and not any(gen.is_pentagon(c_) for c_ in got))
                viol_.append(viol("gridRingUnsafe succeeded with something else than the ring at distance k",
                                  ops[5 * i + 3], f"{len(exp_ring)} cells", a_ring[:200],
                                  key="ringUnsafe-encloses-pentagons" if enclosed else None))
        if len([v_ for v_ in viol_ if v_.get("key") != "ringUnsafe-encloses-pentagons"]) >= 20:
            break
    # 4. gridDisksUnsafe: on success, segment i is exactly the disk of cell i in ring order; batches that put a
    #    cell whose disk meets a pentagon before / between / after cells with pentagon-free disks
    pool = [h for h, _ in plan[:120 * budget]]
    bops, bplan = [], []
    for _ in range((60 if tier == "quick" else 400) * budget):
        k = rng.randrange(0, 3)
        cells_ = [gen.rand_cell(rng) for _ in range(rng.randrange(1, 5))]
        if rng.random() < 0.6:
            r_ = rng.randrange(0, 16)
            bad_ = rng.choice(pool) if rng.random() < 0.5 else gen.mkcell(r_, rng.choice(gen.PENT), [0] * r_)
            cells_.insert(rng.randrange(len(cells_) + 1), bad_)
        bplan.append((cells_, k))
        bops.append(f"disksunsafe {k} {len(cells_)} " + " ".join(gen.hx(c_) for c_ in cells_))
    bout = ctx.c(bops, tag="eval_disks")
    nbatch = 0
    for o, (cells_, k), a in zip(bops, bplan, bout):
        if not ok(a):
            continue
        nbatch += 1
        got = parse_hs(a)
        size = 3 * k * (k + 1) + 1
        for i, h in enumerate(cells_):
            bfs = nb.bfs(h, k)
            if bfs is None:
                continue
            seg = got[i * size:(i + 1) * size]
            dists = [bfs.get(c_) for c_ in seg]
            if (len(seg) != size or set(seg) != set(bfs) or len(set(seg)) != size
                    or any(dists[j] > dists[j + 1] for j in range(size - 1))):
                viol_.append(viol(f"gridDisksUnsafe succeeded although segment {i} is not the disk of cell {gen.hx(h)} "
                                  "in ring order", o, f"{len(bfs)} cells of the disk (or an error code)",
                                  " ".join(gen.hx(c_) for c_ in seg)[:200]))
                break
    # very large disks, evaluated in-process by the harness (`diskcheck`: an independent breadth-first search over
    # gridDisk(k = 1) against gridDisk / gridDiskDistances / gridDiskDistancesSafe).  Radii around the limits of the
    # narrow integer types (127/128/129, 255/256/257): a scratch array of bytes instead of ints (seeded change C05g)
    # shows only from k = 257 on, and only where a pentagon forces the safe fallback.
    big = []
    for res, bc, k in ((8, 38, 257), (9, 4, 129)):
        big.append((gen.mkcell(res, bc, [0] * res), k))                       # a pentagon
    if tier != "quick" or budget > 1:
        big.append((gen.mkcell(7, 117, [0] * 7), 256))
        big.append((gen.mkcell(8, 14, [0] * 8), 262))
        big.append((gen.mkcell(9, 38, [0] * 8 + [3]), 258))                    # a hexagon next to a pentagon
        big.append((gen.mkcell(8, 20, [3] * 8), 257))                          # far from every pentagon (fast walk)
    if tier != "quick":     # (one harness run must stay below the per-run timeout: 150 s quick, 900 s thorough)
        for _ in range(12):
            res = rng.randrange(6, 12)
            bc = rng.choice(gen.PENT)
            ds = [0] * res
            if rng.random() < 0.6:
                ds[-1] = rng.randrange(2, 7)
            if rng.random() < 0.3 and res > 1:
                ds[-2] = rng.randrange(2, 7)
            big.append((gen.mkcell(res, bc, gen.fix_pent(bc, ds)), rng.choice([127, 128, 129, 255, 256, 257, 300])))
    lops = [f"diskcheck {gen.hx(h)} {k}" for h, k in big]
    lout = ctx.c(lops, tag="bigdisks")
    big_cells = 0
    for o, a in zip(lops, lout):
        if not ok(a):
            if not a.startswith("skip"):
                viol_.append(viol("large disk: maxGridDiskSize failed", o, "success", a))
            continue
        parts = [x_.split() for x_ in a[3:].split("|")]
        nbfs = parts[0][0]
        big_cells += int(nbfs)
        want = "ok " + nbfs + " 0" + (" | 0 " + nbfs + " 0 0 0") * (len(parts) - 1)
        if a != want:
            viol_.append(viol("large disk differs from the breadth-first ball over gridDisk(k=1) (per function gridDisk | "
                              "gridDiskDistances | gridDiskDistancesSafe: error, distinct cells, cells outside the ball or "
                              "with a wrong distance, ball cells missing, duplicates)", o, want, a))
    ops = ops + bops + lops
    out = out + bout + lout
    viol_ = [v for v in viol_ if v.get("key") != "ringUnsafe-encloses-pentagons"] + \
            [v for v in viol_ if v.get("key") == "ringUnsafe-encloses-pentagons"]
    return {"evaluations": len(ops) + len(nb.cache), "violations": viol_[:20], "distinct": ops,
            "coverage": {"origins": len(origins), "pentagons": sum(1 for h in origins if gen.is_pentagon(h)),
                         "disks_vs_bfs": ndisk, "disksunsafe_batches_succeeded": nbatch, "disksunsafe_batches": len(bops), "neighbour_lists": len(nb.cache),
                         "largest_k": max(k for _, k in plan)},
            "samples": [{"op": ops[i], "c_answer": out[i][:160]} for i in (0, len(ops) // 2)]}


def replay_verdict(rp, out):
    if rp["ops"] and rp["ops"][0].startswith("diskcheck"):
        return out[0] != rp.get("expected")
    return True
