"""C19 — getIcosahedronFaces reports exactly the faces a cell touches."""
import math
import gen
from evalutil import *
from props.C03 import edge_points

ID = "C19"
LEVEL = "proof"
MODULES = ["H3Proofs.Props.C19", "H3Proofs.Props.C19Shape", "H3Proofs.Props.C19Pent", "H3Proofs.Props.C04Gen", "H3Proofs.Props.C10Gen"]
THEOREMS = "auto"
ASSUMPTIONS = ["all-integer model (h3ToFaceIjk, substrate vertices, overage adjustment, output set) tied by exact "
               "correspondence; the geometric reading (faces the interior intersects) is evaluated with an oracle "
               "that assigns interior sample points of cellToBoundary to the nearest face centre"]
ASSUMPTIONS.append('maxFaceCount, isPentagon and makeDirectChild (the Class II pentagon redirect) are translated from the C text on every run and proved equal to the model functions (C10Gen, C04Gen); makeDirectChild is undefined at resolution 15 (shift by -3), which its only call site excludes')
NOT_PROVED = ["faces = faces intersected by the interior (geometric reading; convexity argument not formalised)", "a hexagon reports one or two faces: at most two by the output-shape theorem; that the second is reported exactly when the interior crosses an icosahedron edge is the geometric reading above (every pentagon reports exactly five distinct faces: C19Pent.pentagon_five_faces, all 192 pentagons enumerated in the kernel)"]
EXPLANATION = ("output-shape theorem (on success: exactly maxFaceCount slots, pairwise distinct faces 0..19, then -1 padding; every input) / table theorems; exact correspondence of getIcosahedronFaces and its integer helpers; "
               "evaluator: reported set = nearest-face set of interior sample points, on complete coarse resolutions, "
               "all pentagons, and cells along all 30 icosahedron edges at every resolution")


def _cells(ctx, rng, tier):
    cells = []
    for bc in range(122):
        for r in range(0, 2 if tier == "quick" else 4):
            cells += gen.children(gen.mkcell(0, bc, []), r)
    for res in range(16):
        for bc in gen.PENT:
            cells.append(gen.mkcell(res, bc, [0] * res))
    pts, _ = edge_points(ctx, rng, 40 if tier == "quick" else 400)
    ops = [f"ll2c {f2bits(la)} {f2bits(ln)} {rng.randrange(16)}" for la, ln in pts]
    for a in ctx.c(ops, tag="edgecells"):
        if ok(a):
            cells.append(int(a.split()[1], 16))
    for _ in range(300 if tier == "quick" else 5000):
        cells.append(gen.rand_cell(rng))
    return list(dict.fromkeys(cells))


def streams(rng, tier):
    ops = []
    for _ in range(2500 if tier == "quick" else 40000):
        h = gen.rand_cell(rng)
        ops += [f"faces {gen.hx(h)}", f"maxfaces {gen.hx(h)}", f"h2fijk {gen.hx(h)}", f"verts {gen.hx(h)}"]
    for res in range(16):
        for bc in gen.PENT:
            ops.append(f"faces {gen.hx(gen.mkcell(res, bc, [0] * res))}")
    for _ in range(600):
        m = gen.malformed(rng)
        ops += [f"faces {gen.hx(m)}", f"h2fijk {gen.hx(m)}"]
    return [("faces", ops)]


def evaluate(ctx, rng, tier, focus, budget, broken):
    viol_ = []
    cells = _cells(ctx, rng, tier)
    for o in focus:
        t = o.split()
        try:
            if gen.layout_spec(int(t[1], 16)):
                cells.insert(0, int(t[1], 16))
        except (ValueError, IndexError):
            pass
    fa = ctx.c(["facecenters"], tag="fc")[0].split()
    fcv = [ll2v(bits2f(fa[2 + 2 * i]), bits2f(fa[3 + 2 * i])) for i in range(20)]

    def nearest(p):
        return max(range(20), key=lambda f: vdot(fcv[f], p))
    ops = []
    for h in cells:
        ops += [f"faces {gen.hx(h)}", f"maxfaces {gen.hx(h)}", f"boundary {gen.hx(h)}", f"c2ll {gen.hx(h)}"]
    out = ctx.c(ops, tag="eval")
    multi = 0
    for i, h in enumerate(cells):
        af, am, ab, ac = out[4 * i: 4 * i + 4]
        pent = gen.is_pentagon(h)
        if am != f"ok {5 if pent else 2}":
            viol_.append(viol("maxFaceCount", ops[4 * i + 1], 5 if pent else 2, am))
        if not ok(af):
            viol_.append(viol("getIcosahedronFaces failed on a valid cell", ops[4 * i], "success", af)); continue
        t = af.split()
        slots = [int(x) for x in t[2:]]
        faces = [x for x in slots if x != -1]
        if len(slots) != (5 if pent else 2) or len(set(faces)) != len(faces) or any(not (0 <= x < 20) for x in faces) \
                or (pent and len(faces) != 5) or (not pent and len(faces) not in (1, 2)):
            viol_.append(viol("output slots: distinct faces 0-19 padded with -1; five for a pentagon, one or two for a hexagon",
                              ops[4 * i], "well-formed", af))
            continue
        if len(faces) > 1:
            multi += 1
        if not (ok(ab) and ok(ac)):
            continue
        bd = parse_boundary(ab)
        c = ll2v(bits2f(ac.split()[1]), bits2f(ac.split()[2]))
        vs = [ll2v(*b) for b in bd]
        oracle = set()
        if not pent:
            oracle.add(nearest(c))
        n = len(vs)
        for j in range(n):
            for (p, q, w) in ((vs[j], vs[j], 1.0), (vs[j], vs[(j + 1) % n], 0.5)):
                e = vnorm(vadd(vscale(p, w), vscale(q, 1 - w))) if w != 1.0 else p
                s = vnorm(vadd(vscale(e, 1 - 2e-3), vscale(c, 2e-3)))      # pulled 0.2 % towards the centre
                oracle.add(nearest(s))
        if oracle != set(faces):
            viol_.append(viol("reported faces differ from the faces of interior sample points", ops[4 * i],
                              sorted(oracle), sorted(faces)))
        if len(viol_) >= 20:
            break
    return {"evaluations": len(ops), "violations": viol_[:20], "distinct": ops[::4],
            "coverage": {"cells": len(cells), "cells_with_more_than_one_face": multi,
                         "pentagons": sum(1 for h in cells if gen.is_pentagon(h))},
            "samples": [{"op": ops[i], "c_answer": out[i][:160]} for i in (0, len(ops) // 2)]}


def replay_verdict(rp, out):
    return True
