"""C09 — gridDistance is the true graph distance; local IJ is a consistent partial chart."""
import gen
from evalutil import *

ID = "C09"
LEVEL = "proof"
MODULES = ["H3Proofs.Props.C09", "H3Proofs.Props.C09Hex", "H3Proofs.Props.C09Dist", "H3Proofs.Props.C09Round", "H3Proofs.Props.C09Valid"]
THEOREMS = "auto"
ASSUMPTIONS = ["hand-written model of cellToLocalIjk / localIjkToCell / gridDistance with the regenerated pentagon "
               "rotation tables, tied to the code by exact correspondence"]
ASSUMPTIONS.append("inside a hexagon base cell, at every resolution: gridDistance = hexagonal norm of the coordinate "
                   "difference = graph distance of the ideal lattice (C09Dist), symmetric, 1 for neighbours, and a lower bound "
                   "for every walk that stays inside the base cell")
NOT_PROVED = ["gridDistance = graph distance across base-cell boundaries and near pentagons is evaluated (BFS over the library's own k=1 disks), not proved",
              "cellToLocalIj / localIjToCell mutually inverse: PROVED inside a hexagon base cell at every resolution, both "
              "directions (C09Round: localIj_roundtrip, localIj_inverse); across base-cell boundaries and in pentagon base "
              "cells (unfolding tables) exercised by correspondence + evaluator"]
ASSUMPTIONS.append("localIjToCell only ever returns valid cells of the origin's resolution: PROVED for every origin and every "
                   "coordinate pair, all branches and unfolding tables (C09Valid.localIjToCell_valid)")
EXPLANATION = ("inside a hexagon base cell, every resolution: cellToLocalIj and localIjToCell are mutually inverse (digit recovery by the "
               "rounding up-aperture steps, no overflow guard fires), gridDistance = lattice graph distance; validation/normalisation theorems on the model; exact correspondence of the five local-IJ functions; "
               "the evaluator compares gridDistance with breadth-first distance, checks symmetry, both round trips and "
               "unit steps away from pentagons")


def _origins(rng, tier):
    cells = []
    for res in range(16):
        for bc in (4, 14, 58, 117):
            cells.append(gen.mkcell(res, bc, [0] * res))
            if res > 0:
                ds = [0] * res; ds[-1] = rng.choice([2, 3, 4, 5, 6])
                cells.append(gen.mkcell(res, bc, ds))
    for _ in range(60 if tier == "quick" else 600):
        cells.append(gen.rand_cell(rng))
    return list(dict.fromkeys(cells))


def streams(rng, tier):
    ops = []
    for o in _origins(rng, tier):
        ox = gen.hx(o)
        res = (o >> 52) & 15
        for _ in range(6):
            h = gen.rand_cell(rng, res=res, bc=(o >> 45) & 127)
            ops += [f"lijk {ox} {gen.hx(h)}", f"dist {ox} {gen.hx(h)}", f"lij {ox} {gen.hx(h)} {rng.choice([0, 0, 0, 1, 7])}"]
        for _ in range(6):
            i, j = rng.randrange(-30, 30), rng.randrange(-30, 30)
            ops += [f"ij2cell {ox} {i} {j} 0", f"ijk2cell {ox} {abs(i)} {abs(j)} {rng.randrange(0, 5)}"]
        ops.append(f"ij2cell {ox} {rng.choice(gen.EXTREME_INTS)} {rng.choice(gen.EXTREME_INTS)} 0")
        ops.append(f"dist {ox} {gen.hx(gen.rand_cell(rng))}")
        ops.append(f"dist {ox} {gen.hx(gen.malformed(rng))}")
    return [("localij", ops)]


def evaluate(ctx, rng, tier, focus, budget, broken):
    viol_ = []
    nb = Neigh(ctx)
    origins = _origins(rng, tier)[: (80 if tier == "quick" else 400) * budget]
    for o in focus:
        t = o.split()
        try:
            h = int(t[1], 16)
            if gen.layout_spec(h):
                origins.insert(0, h)
        except (ValueError, IndexError):
            pass
    ops, meta = [], []
    for o in origins:
        res = (o >> 52) & 15
        k = 3 if res > 0 else 2
        bfs = nb.bfs(o, k)
        if bfs is None:
            continue
        for c, d in bfs.items():
            ops.append(f"dist {gen.hx(o)} {gen.hx(c)}"); meta.append(("dist", o, c, d))
            ops.append(f"dist {gen.hx(c)} {gen.hx(o)}"); meta.append(("distrev", o, c, d))
            ops.append(f"lij {gen.hx(o)} {gen.hx(c)} 0"); meta.append(("lij", o, c, d))
    # whole coarse resolution: every pair at res 0 from a few origins
    out = ctx.c(ops, tag="eval")
    ops2, meta2 = [], []
    ij = {}
    nsucc = 0
    for o_, m, a in zip(ops, meta, out):
        kind, o, c, d = m
        if kind in ("dist", "distrev"):
            if ok(a):
                nsucc += 1
                if a != f"ok {d}":
                    viol_.append(viol("gridDistance succeeded with a value different from the breadth-first distance",
                                      o_, f"ok {d}", a))
            elif d <= 1 and kind == "dist" and not any(gen.is_pentagon(x) for x in (o, c)):
                pass
        elif kind == "lij" and ok(a):
            t = a.split()
            ij[(o, c)] = (int(t[1]), int(t[2]))
            ops2.append(f"ij2cell {gen.hx(o)} {t[1]} {t[2]} 0"); meta2.append((o, c))
        if len(viol_) >= 20:
            break
    out2 = ctx.c(ops2, tag="eval2")
    for o_, (o, c), a in zip(ops2, meta2, out2):
        if ok(a):
            if a != "ok " + gen.hx(c):
                viol_.append(viol("localIjToCell(cellToLocalIj(c)) != c", o_, "ok " + gen.hx(c), a))
    # unit steps: neighbours differ by one unit step where no pentagon is in the explored neighbourhood
    nstep = 0
    for o in origins:
        bfs = nb.bfs(o, 3 if (o >> 52) & 15 > 0 else 2)
        if bfs is None or any(gen.is_pentagon(x) for x in bfs):
            continue
        for c in bfs:
            for x in (nb.cache.get(c) or []):
                if (o, c) in ij and (o, x) in ij:
                    di = ij[(o, x)][0] - ij[(o, c)][0]
                    dj = ij[(o, x)][1] - ij[(o, c)][1]
                    nstep += 1
                    if (di, dj) not in ((1, 0), (-1, 0), (0, 1), (0, -1), (1, 1), (-1, -1)):
                        viol_.append(viol("neighbouring cells are not one unit step apart in local IJ",
                                          [f"lij {gen.hx(o)} {gen.hx(c)} 0", f"lij {gen.hx(o)} {gen.hx(x)} 0"], "unit step", (di, dj)))
    # self distance, mismatch, localIjToCell validity
    ops3, exp3 = [], []
    for o in origins:
        ops3.append(f"dist {gen.hx(o)} {gen.hx(o)}"); exp3.append("ok 0")
        res = (o >> 52) & 15
        other = gen.rand_cell(rng, res=(res + 1) % 16)
        ops3.append(f"dist {gen.hx(o)} {gen.hx(other)}"); exp3.append("err 12")
        # every other resolution (descendants / ancestors of the origin and unrelated cells): E_RES_MISMATCH
        for r2 in range(16):
            if r2 != res:
                rel = gen.mkcell(r2, (o >> 45) & 127, gen.fields(o)[2][:res] + [0] * (r2 - res)) if r2 > res else gen.parent(o, r2)
                for other in (rel, gen.rand_cell(rng, res=r2, bc=(o >> 45) & 127)):
                    ops3.append(f"dist {gen.hx(o)} {gen.hx(other)}"); exp3.append("err 12")
                    ops3.append(f"lij {gen.hx(o)} {gen.hx(other)} 0"); exp3.append("err 12")
    out3 = ctx.c(ops3, tag="eval3")
    for o_, e, a in zip(ops3, exp3, out3):
        if a != e and not (e == "err 12" and o_.startswith("lij") and not ok(a)):
            viol_.append(viol("gridDistance / cellToLocalIj self / resolution-mismatch clause", o_, e, a))
    ops4 = []
    for o in origins:
        for _ in range(20):
            ops4.append(f"ij2cell {gen.hx(o)} {rng.randrange(-60, 60)} {rng.randrange(-60, 60)} 0")
    # origins in the five base cells around each pentagon base cell, coordinates reaching across the pentagon base
    # cell (the unfolding tables PENTAGON_ROTATIONS* are consulted per (direction of the pentagon, leading digit))
    for bc in gen.PENT:
        around = [x for x in (nb.bfs(gen.mkcell(0, bc, []), 1) or {}) if ((x >> 45) & 127) != bc]
        for n0 in around:
            for res, R, cnt in ((1, 5, 7), (2, 12, 6), (3, 32, 6)) + (((4, 85, 6),) if tier != "quick" else ()):
                kids = gen.children(n0, res)
                for o in (kids if len(kids) <= cnt else rng.sample(kids, cnt)):
                    for _ in range(12 if tier == "quick" else 40):
                        ops4.append(f"ij2cell {gen.hx(o)} {rng.randrange(-R, R + 1)} {rng.randrange(-R, R + 1)} 0")
    out4 = ctx.c(ops4, tag="eval4")
    ops5, m5 = [], []
    for o_, a in zip(ops4, out4):
        if ok(a):
            h = int(a.split()[1], 16)
            o = int(o_.split()[1], 16)
            if not gen.layout_spec(h) or ((h >> 52) & 15) != ((o >> 52) & 15):
                viol_.append(viol("localIjToCell returned an invalid cell / wrong resolution", o_, "valid cell of the origin's resolution", a))
            else:
                ops5.append(f"lij {o_.split()[1]} {a.split()[1]} 0"); m5.append((o_, o_.split()[2], o_.split()[3]))
    out5 = ctx.c(ops5, tag="eval5")
    for o_, (src, i, j), a in zip(ops5, m5, out5):
        if ok(a) and a != f"ok {i} {j}":
            viol_.append(viol("cellToLocalIj(localIjToCell(i,j)) != (i,j)", [src, o_], f"ok {i} {j}", a))
    return {"evaluations": len(ops) + len(ops2) + len(ops3) + len(ops4) + len(ops5), "violations": viol_[:20],
            "distinct": ops,
            "coverage": {"origins": len(origins), "pairs": len(ops) // 3, "distance_successes": nsucc,
                         "unit_steps_checked": nstep, "ij_roundtrips": len(ops2) + len(ops5)},
            "samples": [{"op": ops[i], "c_answer": out[i]} for i in (0, len(ops) // 2)]}


def replay_verdict(rp, out):
    return True
