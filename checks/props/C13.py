"""C13 — cellToChildPos / childPosToCell are inverse bijections in child order."""
import gen
from evalutil import *

ID = "C13"
LEVEL = "proof"
MODULES = ["H3Proofs.Props.C13", "H3Proofs.Props.C13Bij", "H3Proofs.Props.C04Valid", "H3Proofs.Props.C13Refine", "H3Proofs.Props.C04Gen", "H3Proofs.Props.C13Gen", "H3Proofs.Props.C13PosShape", "H3Proofs.Props.C13Pos"]
THEOREMS = "auto"
ASSUMPTIONS = ["hand-written loop-faithful model of cellToChildPos/childPosToCell/validateChildPos/_ipow tied to the code "
               "by the correspondence check; the specification-level model the bijection theorems are about is PROVED equal "
               "to the loop-faithful one for all inputs (C13Refine: childPosToCell_eq, cellToChildPos_eq)"]
ASSUMPTIONS.append('cellToParent, cellToChildrenSize, isPentagon and _ipow(7, 0..15), which cellToChildPos / childPosToCell / validateChildPos are built from, are translated from the C text on every run and proved equal to the model functions (C04Gen)')
ASSUMPTIONS.append("cellToChildPos itself - both loops, the cellToParent / isPentagon calls inside the pentagon loop, the error returns and the final validateChildPos - is translated from the C text on every run (16 unrollings, break / partial returns as duplicated continuations) and PROVED to return the model's error code and, on success, the model's position, for all 2^64 cells, all 2^32 parent resolutions and every value of its uninitialised locals (C13PosShape: code_shape / out_shape by bv_decide; C13Pos: loopH, loopP, cellToChildPos_eq_model)")
NOT_PROVED = ["that the NEVER(validateChildPos(...)) assertion at the end of cellToChildPos cannot fire (a `_defined` theorem for the "
              "translated cellToChildPos): the model returns E_FAILED there and the bijection theorems show the position is in range "
              "(C13Bij.childPos_lt_size), but the definedness companion of the 640-line translation is not analysed",
              "childPosToCell is tied to the code by correspondence only (its translation is 4.4k lines per result: not registered)"]
EXPLANATION = ("position <-> child theorems about the model + correspondence; the evaluator compares the real "
               "functions with an independent python rank/unrank over the digit tree at every depth 0..15")


def subtree(pent_chain, levels):
    """number of cells `levels` below a prefix; pent_chain = prefix is a pentagon (all-zero under pentagon bc)"""
    return 1 + 5 * (7 ** levels - 1) // 6 if pent_chain else 7 ** levels


def rank(child, pres):
    res, bc, ds = gen.fields(child)
    pent = bc in gen.PENT_SET and all(d == 0 for d in ds[:pres])
    pos = 0
    for lvl in range(pres + 1, res + 1):
        d = ds[lvl - 1]
        below = res - lvl
        for e in range(d):
            if pent and e == 1:
                continue
            pos += subtree(pent and e == 0, below)
        pent = pent and d == 0
    return pos


def unrank(pos, parent_, cres):
    pres, bc, ds = gen.fields(parent_)
    ds = ds[:pres]
    pent = bc in gen.PENT_SET and all(d == 0 for d in ds)
    for lvl in range(pres + 1, cres + 1):
        below = cres - lvl
        for e in range(7):
            if pent and e == 1:
                continue
            s = subtree(pent and e == 0, below)
            if pos < s:
                ds.append(e)
                pent = pent and e == 0
                break
            pos -= s
    return gen.mkcell(cres, bc, ds)


def _triples(rng, tier, n):
    out = []
    parents = []
    for res in range(16):
        for bc in (4, 117, 58, 0, 33):
            parents.append(gen.mkcell(res, bc, [0] * res))
            parents.append(gen.rand_cell(rng, res=res, bc=bc))
    for p in parents:
        pres = (p >> 52) & 15
        for cres in range(pres, 16):
            size = gen.children_size(p, cres)
            m = cres - pres
            cand = {0, 1, size - 1, size // 2, rng.randrange(size)}
            for lv in range(0, m + 1):      # leave-level boundaries
                w = 1 + 5 * (7 ** lv - 1) // 6
                cand.update({w - 1, w, w + 1, 7 ** lv - 1, 7 ** lv, 7 ** lv + 1})
            for pos in cand:
                if 0 <= pos < size:
                    out.append((p, cres, pos))
    rng.shuffle(out)
    return out[:n]


def streams(rng, tier):
    n = 6000 if tier == "quick" else 60000
    tr = _triples(rng, tier, n)
    ops = []
    for p, cres, pos in tr:
        ops.append(f"pos2cell {pos} {gen.hx(p)} {cres}")
        ops.append(f"cpos {gen.hx(unrank(pos, p, cres))} {(p >> 52) & 15}")
        ops.append(f"pos2cellS {pos} {gen.hx(p)} {cres}")   # specification-level model (the theorems' subject)
        ops.append(f"cposS {gen.hx(unrank(pos, p, cres))} {(p >> 52) & 15}")
    ops2 = []
    for p, cres, pos in tr[:1500]:
        size = gen.children_size(p, cres)
        for q in (-1, size, size + 1, -2 ** 62, 2 ** 62):
            ops2.append(f"pos2cell {q} {gen.hx(p)} {cres}")
        ops2.append(f"pos2cell 0 {gen.hx(p)} {rng.choice([-1, 16, 17, -2147483648, 2147483647])}")
        ops2.append(f"pos2cell 0 {gen.hx(p)} {rng.choice(gen.EXTREME_INTS)}")
        ops2.append(f"cpos {gen.hx(p)} {rng.choice(gen.EXTREME_INTS)}")
        ops2.append(f"pos2cell 0 {gen.hx(p)} {max(-1, ((p >> 52) & 15) - 1)}")
    # the c2lean translations of validateChildPos / getNumCells / maxGridDiskSize against the compiled functions
    ks = [13780509, 13780510, 13780511, 0, 1, 2, 100, 46340, 46341, 2000000] + gen.EXTREME_INTS
    for i_, (p, cres, pos) in enumerate(tr[:600]):
        size = gen.children_size(p, cres)
        q = (pos, -1, size, size - 1, 0, -2 ** 63, 2 ** 63 - 1)[i_ % 7]
        r_ = cres if i_ % 5 else rng.choice(gen.EXTREME_INTS + [0, 15, 16])
        ops2.append(f"genfn4 {q} {gen.hx(p)} {r_} {ks[i_ % len(ks)]} {gen.hx(rng.getrandbits(64))}")
    # the c2lean translation of cellToChildPos against the compiled function: valid children at every depth, error
    # arguments, malformed cells (the value left in *out is compared too)
    for i_, (p, cres, pos) in enumerate(tr[:1200]):
        ch = unrank(pos, p, cres)
        r_ = (p >> 52) & 15 if i_ % 6 else rng.choice(gen.EXTREME_INTS + [0, 15, 16])
        ops2.append(f"genfn5 {gen.hx(ch)} {r_} {gen.hx(rng.getrandbits(64))} {gen.hx(rng.getrandbits(64))} {gen.hx(rng.getrandbits(64))}")
    for _ in range(400):
        ops2.append(f"genfn5 {gen.hx(gen.malformed(rng))} {rng.randrange(-1, 17)} {gen.hx(rng.getrandbits(64))} 0 0")
    for _ in range(1500):
        h = gen.malformed(rng)
        ops2.append(f"cpos {gen.hx(h)} {rng.randrange(-1, 17)}")
        ops2.append(f"pos2cell {rng.randrange(0, 50)} {gen.hx(h)} {rng.randrange(0, 16)}")
        ops2.append(f"cposS {gen.hx(h)} {rng.randrange(-1, 17)}")
        ops2.append(f"pos2cellS {rng.randrange(0, 50)} {gen.hx(h)} {rng.randrange(0, 16)}")
    return [("pos-roundtrip", ops), ("errors-malformed", ops2)]


def evaluate(ctx, rng, tier, focus, budget, broken):
    n = (5000 if tier == "quick" else 40000) * budget
    tr = _triples(rng, tier, n)
    for o in focus:
        t = o.split()
        try:
            if t[0] == "pos2cell" and gen.layout_spec(int(t[2], 16)):
                p, cres, pos = int(t[2], 16), int(t[3]), int(t[1])
                if (p >> 52) & 15 <= cres <= 15 and 0 <= pos < gen.children_size(p, cres):
                    tr.insert(0, (p, cres, pos))
            if t[0] == "cpos" and gen.layout_spec(int(t[1], 16)):
                c = int(t[1], 16); pr = int(t[2])
                if 0 <= pr <= (c >> 52) & 15:
                    tr.insert(0, (gen.parent(c, pr), (c >> 52) & 15, rank(c, pr)))
        except (ValueError, IndexError):
            pass
    ops, exp = [], []
    for p, cres, pos in tr:
        pres = (p >> 52) & 15
        child = unrank(pos, p, cres)
        assert rank(child, pres) == pos
        ops.append(f"pos2cell {pos} {gen.hx(p)} {cres}"); exp.append("ok " + gen.hx(child))
        ops.append(f"cpos {gen.hx(child)} {pres}"); exp.append(f"ok {pos}")
        size = gen.children_size(p, cres)
        ops.append(f"pos2cell {size} {gen.hx(p)} {cres}"); exp.append("err 2")
        ops.append(f"pos2cell -1 {gen.hx(p)} {cres}"); exp.append("err 2")
        if pres > 0:
            ops.append(f"pos2cell 0 {gen.hx(p)} {pres - 1}"); exp.append("err 12")
        ops.append(f"pos2cell 0 {gen.hx(p)} 16"); exp.append("err 4")
        ops.append(f"pos2cell 0 {gen.hx(p)} -1"); exp.append("err 4")
    # position i is the i-th element of cellToChildren (shallow depths, complete)
    lists = []
    for p, cres, pos in tr[:300]:
        pres = (p >> 52) & 15
        if cres - pres <= 3:
            lists.append((p, cres))
    lops = [f"children {gen.hx(p)} {c}" for p, c in lists]
    out = ctx.c(ops + lops, tag="eval")
    viol_ = []
    for o, e, a in zip(ops, exp, out):
        if a != e:
            viol_.append(viol("child position <-> child mismatch with the digit-tree rank", o, e, a))
            if len(viol_) >= 20:
                break
    ops3, exp3 = [], []
    for (p, c), a in zip(lists, out[len(ops):]):
        if ok(a):
            for i, ch in enumerate(parse_hs(a)):
                ops3.append(f"pos2cell {i} {gen.hx(p)} {c}"); exp3.append("ok " + gen.hx(ch))
                ops3.append(f"cpos {gen.hx(ch)} {(p >> 52) & 15}"); exp3.append(f"ok {i}")
    out3 = ctx.c(ops3, tag="eval3") if ops3 else []
    for o, e, a in zip(ops3, exp3, out3):
        if a != e:
            viol_.append(viol("position i is not the i-th element of cellToChildren", o, e, a))
            if len(viol_) >= 20:
                break
    return {"evaluations": len(ops) + len(lops) + len(ops3), "violations": viol_,
            "coverage": {"triples": len(tr), "child_lists": len(lists),
                         "depths": sorted({c - ((p >> 52) & 15) for p, c, _ in tr})},
            "samples": [{"op": ops[i], "c_answer": out[i]} for i in (0, len(ops) // 2)]}


def replay_verdict(rp, out):
    return out[0] != rp["expected"]
