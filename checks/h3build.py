"""Build the uber/h3 library from /repo's *current working tree* for the harness.

Nothing here uses CMake: the sources are compiled directly so that (a) per-file
wrapper translation units can replace a library source and reach its statics,
(b) sanitizers / assertions / the custom allocator prefix are under our control.
Objects are cached under /verif/build/<flavor>-<hash of sources+flags>/.
"""
import hashlib, os, re, subprocess, sys, shutil, glob, concurrent.futures as cf

VERIF = os.path.dirname(os.path.dirname(os.path.abspath(__file__)))
REPO = os.environ.get("H3_REPO", "/repo")
BUILD = os.path.join(VERIF, "build")
HARNESS = os.path.join(VERIF, "harness")
LIBSRC = os.path.join(REPO, "src/h3lib/lib")
LIBINC = os.path.join(REPO, "src/h3lib/include")

FLAVORS = {
    # assertions live (NEVER/ALWAYS become assert), ASan+UBSan, custom allocator
    "asan": ["clang", "-O1", "-g", "-fno-omit-frame-pointer",
             "-fsanitize=address,undefined", "-fno-sanitize-recover=all",
             "-UNDEBUG", "-DH3_ALLOC_PREFIX=verif_"],
    # plain fast build, assertions live, custom allocator
    "fast": ["clang", "-O2", "-g", "-UNDEBUG", "-DH3_ALLOC_PREFIX=verif_"],
    # thread sanitizer
    "tsan": ["clang", "-O1", "-g", "-fsanitize=thread", "-UNDEBUG",
             "-DH3_ALLOC_PREFIX=verif_"],
    # release-like (NDEBUG): defensive branches compiled as in production
    "rel": ["clang", "-O2", "-g", "-DNDEBUG", "-DH3_ALLOC_PREFIX=verif_"],
}


def lib_sources():
    return sorted(glob.glob(os.path.join(LIBSRC, "*.c")))


def tree_hash(extra=()):
    h = hashlib.sha256()
    files = lib_sources() + sorted(glob.glob(os.path.join(LIBINC, "*")))
    files += [os.path.join(REPO, "VERSION")]
    files += sorted(glob.glob(os.path.join(HARNESS, "*")))
    for f in files:
        h.update(f.encode())
        with open(f, "rb") as fh:
            h.update(fh.read())
    for e in extra:
        h.update(str(e).encode())
    return h.hexdigest()[:16]


def gen_header(outdir):
    ver = open(os.path.join(REPO, "VERSION")).read().strip().split("-")[0]
    major, minor, patch = ver.split(".")[:3]
    src = open(os.path.join(LIBINC, "h3api.h.in")).read()
    src = (src.replace("@H3_VERSION_MAJOR@", major)
              .replace("@H3_VERSION_MINOR@", minor)
              .replace("@H3_VERSION_PATCH@", patch))
    os.makedirs(outdir, exist_ok=True)
    p = os.path.join(outdir, "h3api.h")
    if not os.path.exists(p) or open(p).read() != src:
        open(p, "w").write(src)


def run(cmd, **kw):
    r = subprocess.run(cmd, stdout=subprocess.PIPE, stderr=subprocess.STDOUT,
                       text=True, **kw)
    return r.returncode, r.stdout


def clean_old(keep):
    """remove cached build dirs of other source trees (disk is limited)"""
    if not os.path.isdir(BUILD):
        return
    for d in os.listdir(BUILD):
        full = os.path.join(BUILD, d)
        if os.path.isdir(full) and re.match(r"^(asan|fast|tsan|rel)-[0-9a-f]{16}$", d) \
                and d not in keep:
            shutil.rmtree(full, ignore_errors=True)


class BuildError(Exception):
    pass


def build(flavor="fast", extra_tus=(), exe_name="h3drv", main_src=None,
          replace=None, extra_flags=()):
    """Compile library (+ wrapper TUs) + main_src into an executable.

    replace: dict libfile-basename -> wrapper .c path compiled *instead of* it.
    Returns path of the executable.  Raises BuildError with compiler output.
    """
    flags = FLAVORS[flavor] + list(extra_flags)
    th = tree_hash(flags)
    bdir = os.path.join(BUILD, f"{flavor}-{th}")
    inc = os.path.join(bdir, "include")
    gen_header(inc)
    objdir = os.path.join(bdir, "obj")
    os.makedirs(objdir, exist_ok=True)
    replace = replace or {}
    # default: any harness/w_<name>.c replaces lib/<name>.c
    for w in glob.glob(os.path.join(HARNESS, "w_*.c")):
        replace.setdefault(os.path.basename(w)[2:], w)
    jobs = []
    objs = []
    common = ["-std=c11", "-D_GNU_SOURCE", "-I", inc, "-I", LIBINC, "-I", HARNESS, "-I", LIBSRC,
              "-DUBER_H3_VERIF", "-DH3_PREFIX=", "-c"]
    for src in lib_sources():
        base = os.path.basename(src)
        real = replace.get(base, src)
        obj = os.path.join(objdir, base[:-2] + ".o")
        objs.append(obj)
        if not os.path.exists(obj):
            jobs.append((real, obj))
    for src in extra_tus:
        obj = os.path.join(objdir, "x_" + os.path.basename(src)[:-2] + ".o")
        objs.append(obj)
        if not os.path.exists(obj):
            jobs.append((src, obj))

    def cc(job):
        src, obj = job
        cmd = [flags[0]] + flags[1:] + common + [src, "-o", obj + ".tmp"]
        rc, out = run(cmd)
        if rc == 0:
            os.replace(obj + ".tmp", obj)
        return rc, out, src
    with cf.ThreadPoolExecutor(16) as ex:
        for rc, out, src in ex.map(cc, jobs):
            if rc != 0:
                raise BuildError(f"compile failed: {src}\n{out}")
    exe = os.path.join(bdir, exe_name)
    if main_src:
        mobj = os.path.join(objdir, "m_" + exe_name + ".o")
        need = (not os.path.exists(exe)) or jobs
        if need:
            cmd = [flags[0]] + flags[1:] + common + [main_src, "-o", mobj]
            rc, out = run(cmd)
            if rc != 0:
                raise BuildError(f"compile failed: {main_src}\n{out}")
            san = [f for f in flags if f.startswith("-fsanitize")]
            cmd = [flags[0]] + san + ["-g", "-o", exe + ".tmp", mobj] + objs + ["-lm", "-lpthread"]
            rc, out = run(cmd)
            if rc != 0:
                raise BuildError(f"link failed\n{out}")
            os.replace(exe + ".tmp", exe)
    return exe, bdir


if __name__ == "__main__":
    fl = sys.argv[1] if len(sys.argv) > 1 else "fast"
    print(build(fl, main_src=os.path.join(HARNESS, "h3drv.c"),
                extra_tus=[os.path.join(HARNESS, "valloc.c")]))
