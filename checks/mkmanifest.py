#!/usr/bin/env python3
"""Writes MANIFEST.json from the per-property modules in checks/props (kept in one place so the
manifest never drifts from what the checks do)."""
import json, os, sys, importlib
HERE = os.path.dirname(os.path.abspath(__file__))
VERIF = os.path.dirname(HERE)
sys.path.insert(0, HERE)

props = [json.loads(l) for l in open(os.path.join(VERIF, "properties.jsonl"))]
checks, na = [], []
for p in props:
    pid = p["id"]
    try:
        mod = importlib.import_module(f"props.{pid}")
    except ModuleNotFoundError:
        na.append({"property_id": pid, "reason": "check not built yet in this round (model/proofs in progress; see DESIGN.md §5 for the plan)"})
        continue
    checks.append({
        "property_id": pid,
        "quick_cmd": f"python3 checks/run.py --property {pid} --tier quick",
        "thorough_cmd": f"python3 checks/run.py --property {pid} --tier thorough",
        "evidence_file": f"/verif/evidence/{pid}.json",
        "replay_cmd_template": "python3 checks/run.py --replay {path}",
        "engine": "lean4-proof+correspondence",
        "level_claimed": {"category": mod.LEVEL, "text": mod.MANIFEST_TEXT if hasattr(mod, "MANIFEST_TEXT") else mod.EXPLANATION,
                          "design_ref": f"DESIGN.md §5 {pid}"},
        "level_note": getattr(mod, "LEVEL_NOTE", "; ".join(getattr(mod, "ASSUMPTIONS", []) + ["not proved: " + x for x in getattr(mod, "NOT_PROVED", [])])),
        "technique": getattr(mod, "TECHNIQUE", "Lean 4 theorems about a model (kernel-checked) + model/code correspondence check"),
    })
man = {
    "version": 1,
    "setup_cmd": "python3 checks/run.py --setup",
    "hooks": {"guard": "UBER_H3_VERIF", "enable": "none needed: the harness compiles /repo/src/h3lib directly with per-file wrapper translation units (harness/w_*.c) and -DH3_ALLOC_PREFIX=verif_; -DUBER_H3_VERIF is passed but no source in /repo tests it",
              "baseline_off_cmd": "ctest --test-dir /repo/_build -j8 --timeout 900",
              "source_commits": [], "add_only": True},
    "engines": [{"name": "lean4-proof+correspondence", "path": "/verif/checks/run.py",
                 "serves_properties": [c["property_id"] for c in checks],
                 "kind_free_text": "Lean 4.33 theorems about an executable model (lean/), regenerated tables and translated bit functions, differential correspondence of the model executable against the real library under ASan/UBSan"}],
    "checks": checks,
    "not_applicable": na,
    "notes": "See DESIGN.md. known_findings.txt lists genuine defects (fixed / recorded).",
}
json.dump(man, open(os.path.join(VERIF, "MANIFEST.json"), "w"), indent=1)
print(len(checks), "checks;", len(na), "not claimed")
