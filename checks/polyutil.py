"""planar (lat/lng) polygon geometry for the C07/C15/C16 evaluators; floats with explicit ambiguity bands"""
import math

TWO_PI = 2 * math.pi


def crosses_antimeridian(loops):
    for lp in loops:
        n = len(lp)
        for i in range(n):
            if abs(lp[i][1] - lp[(i + 1) % n][1]) > math.pi:
                return True
    return False


def frame(loops):
    """returns (loops', fix) where longitudes are made continuous: if the polygon crosses the antimeridian
    negative longitudes are shifted by 2 pi (the property's own convention); fix(lng) maps a longitude"""
    if crosses_antimeridian(loops):
        f = lambda x: x + TWO_PI if x < 0 else x
    else:
        f = lambda x: x
    return [[(la, f(ln)) for la, ln in lp] for lp in loops], f


def pt_in_loop(p, lp):
    """even-odd crossing test in the (lng, lat) plane; p = (lat, lng)"""
    inside = False
    y, x = p
    n = len(lp)
    for i in range(n):
        y1, x1 = lp[i]
        y2, x2 = lp[(i + 1) % n]
        if (y1 > y) != (y2 > y):
            xs = x1 + (y - y1) * (x2 - x1) / (y2 - y1)
            if x < xs:
                inside = not inside
    return inside


def dist_pt_seg(p, a, b):
    y, x = p
    y1, x1 = a
    y2, x2 = b
    dx, dy = x2 - x1, y2 - y1
    L = dx * dx + dy * dy
    t = 0.0 if L == 0 else max(0.0, min(1.0, ((x - x1) * dx + (y - y1) * dy) / L))
    return math.hypot(x - (x1 + t * dx), y - (y1 + t * dy))


def dist_pt_loops(p, loops):
    d = 1e9
    for lp in loops:
        n = len(lp)
        for i in range(n):
            d = min(d, dist_pt_seg(p, lp[i], lp[(i + 1) % n]))
    return d


def pt_in_polygon(p, loops):
    """inside the outer loop and outside every hole"""
    if not pt_in_loop(p, loops[0]):
        return False
    for h in loops[1:]:
        if pt_in_loop(p, h):
            return False
    return True


def seg_intersect(a, b, c, d):
    """proper or touching intersection of closed segments ab, cd ((lat,lng) points)"""
    def orient(p, q, r):
        return (q[1] - p[1]) * (r[0] - p[0]) - (q[0] - p[0]) * (r[1] - p[1])
    o1, o2, o3, o4 = orient(a, b, c), orient(a, b, d), orient(c, d, a), orient(c, d, b)
    if ((o1 > 0) != (o2 > 0)) and ((o3 > 0) != (o4 > 0)) and o1 != 0 and o2 != 0 and o3 != 0 and o4 != 0:
        return True
    return False


def seg_dist(a, b, c, d):
    if seg_intersect(a, b, c, d):
        return 0.0
    return min(dist_pt_seg(a, c, d), dist_pt_seg(b, c, d), dist_pt_seg(c, a, b), dist_pt_seg(d, a, b))


def loops_min_dist(cell, loops):
    """minimum distance between the cell boundary and the polygon loops"""
    d = 1e9
    n = len(cell)
    for lp in loops:
        m = len(lp)
        for i in range(n):
            for j in range(m):
                d = min(d, seg_dist(cell[i], cell[(i + 1) % n], lp[j], lp[(j + 1) % m]))
                if d == 0.0:
                    return 0.0
    return d


def shift_near(lng, ref):
    while lng - ref > math.pi:
        lng -= TWO_PI
    while lng - ref < -math.pi:
        lng += TWO_PI
    return lng
