"""helpers for the C-side property evaluators"""
import math, struct
import gen


def bits2f(s):
    return struct.unpack(">d", bytes.fromhex(s))[0]


def f2bits(x):
    return struct.pack(">d", x).hex()


def parse_hs(ans):
    """'ok n h1 .. hn' -> list of ints"""
    t = ans.split()
    return [int(x, 16) for x in t[2:2 + int(t[1])]]


def parse_pairs(ans):
    t = ans.split()
    n = int(t[1])
    return [(int(t[2 + 2 * i], 16), int(t[3 + 2 * i])) for i in range(n)]


def ok(ans):
    return ans.startswith("ok")


def viol(what, ops, expected, observed, key=None):
    return {"what": what, "ops": ops if isinstance(ops, list) else [ops], "expected": str(expected)[:400],
            "observed": str(observed)[:400], "key": key or (ops if isinstance(ops, str) else ops[0]).replace(" ", ":")[:120]}


class Neigh:
    """neighbour graph of the real library through `disk h 1` (cached)"""
    def __init__(self, ctx):
        self.ctx = ctx
        self.cache = {}

    def fetch(self, cells):
        need = [c for c in dict.fromkeys(cells) if c not in self.cache]
        if need:
            out = self.ctx.c([f"disk {gen.hx(c)} 1" for c in need], tag="nb")
            for c, a in zip(need, out):
                if ok(a):
                    self.cache[c] = [h for h, d in parse_pairs(a) if h != 0 and h != c]
                else:
                    self.cache[c] = None

    def bfs(self, origin, k):
        """dict cell -> distance for everything within k steps (None if some disk-1 failed)"""
        dist = {origin: 0}
        frontier = [origin]
        for d in range(1, k + 1):
            self.fetch(frontier)
            nxt = []
            for c in frontier:
                nb = self.cache[c]
                if nb is None:
                    return None
                for x in nb:
                    if x not in dist:
                        dist[x] = d
                        nxt.append(x)
            frontier = nxt
        return dist


# ---------------------------------------------------------------- spherical geometry
def ll2v(lat, lng):
    c = math.cos(lat)
    return (c * math.cos(lng), c * math.sin(lng), math.sin(lat))


def vdot(a, b):
    return a[0] * b[0] + a[1] * b[1] + a[2] * b[2]


def vcross(a, b):
    return (a[1] * b[2] - a[2] * b[1], a[2] * b[0] - a[0] * b[2], a[0] * b[1] - a[1] * b[0])


def vnorm(a):
    n = math.sqrt(vdot(a, a))
    return (a[0] / n, a[1] / n, a[2] / n)


def vsub(a, b):
    return (a[0] - b[0], a[1] - b[1], a[2] - b[2])


def vadd(a, b):
    return (a[0] + b[0], a[1] + b[1], a[2] + b[2])


def vscale(a, s):
    return (a[0] * s, a[1] * s, a[2] * s)


def gc_dist(p, q):
    """great-circle distance between (lat,lng) pairs, haversine"""
    dlat = q[0] - p[0]
    dlng = q[1] - p[1]
    a = math.sin(dlat / 2) ** 2 + math.cos(p[0]) * math.cos(q[0]) * math.sin(dlng / 2) ** 2
    return 2 * math.atan2(math.sqrt(a), math.sqrt(max(0.0, 1 - a)))


def ang_dist_v(a, b):
    return math.atan2(math.sqrt(vdot(vcross(a, b), vcross(a, b))), vdot(a, b))


def sph_polygon_area(vs):
    """signed area of the spherical polygon with unit-vector vertices vs (CCW positive),
    by summing signed triangle areas against the first vertex (fine for cell-sized polygons)"""
    tot = 0.0
    a = vs[0]
    for i in range(1, len(vs) - 1):
        b, c = vs[i], vs[i + 1]
        num = vdot(a, vcross(b, c))
        den = 1 + vdot(a, b) + vdot(b, c) + vdot(c, a)
        tot += 2 * math.atan2(num, den)
    return tot


def parse_boundary(ans):
    t = ans.split()
    n = int(t[1])
    return [(bits2f(t[2 + 2 * i]), bits2f(t[3 + 2 * i])) for i in range(n)]
