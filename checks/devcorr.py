#!/usr/bin/env python3
"""dev tool: broad correspondence run of all traversal ops (not a registered check)"""
import sys, os, random, collections
sys.path.insert(0, os.path.dirname(os.path.abspath(__file__)))
import run, gen
seed = int(sys.argv[1]) if len(sys.argv) > 1 else 1
N = int(sys.argv[2]) if len(sys.argv) > 2 else 3000
rng = random.Random(seed)
prep = run.Prep()
run.build_harness(prep, ("asan",))
assert not prep.harness_error, prep.harness_error
prep.model = os.path.join(run.LEAN, ".lake/build/bin/h3model")
ctx = run.Ctx(prep, "dev", seed, "quick")
ops = []
def cell(maxres=15):
    return gen.rand_cell(rng, res=rng.randrange(maxres + 1))
for _ in range(N):
    h = cell()
    hx = gen.hx(h)
    m = gen.hx(gen.malformed(rng))
    d = rng.randrange(0, 8)
    ops += [f"nbr {hx} {d} {rng.randrange(0, 7)}", f"nbr {m} {d} 0",
            f"h2fijk {hx}", f"h2fijk {m}", f"verts {hx}", f"faces {hx}", f"faces {m}", f"maxfaces {hx}",
            f"vrot {hx}", f"vnumfordir {hx} {d}", f"dirforvnum {hx} {rng.randrange(-1, 8)}",
            f"c2v {hx} {rng.randrange(-1, 7)}", f"c2vs {hx}", f"c2vs {m}", f"edgesfrom {hx}",
            f"ring {hx} {rng.randrange(0, 4)}", f"diskunsafe {hx} {rng.randrange(-1, 4)}",
            f"disk {hx} {rng.randrange(0, 4)}", f"disksafe {hx} {rng.randrange(0, 3)}", f"disk0 {m} {rng.randrange(0, 3)}",
            f"edgevalid {m}", f"vvalid {m}", f"edgedest {m}", f"edgeorigin {m}", f"edgecells {m}"]
ans = ctx.c(ops)
# second stage ops built from answers: neighbours, edges, vertexes, local ij
ops2 = []
for o, a in zip(ops, ans):
    t = o.split()
    if t[0] == "disk" and a.startswith("ok"):
        toks = a.split()[2:]
        cells = [toks[i] for i in range(0, len(toks), 2) if toks[i] != "0"]
        o0 = t[1]
        for c in cells[:8]:
            ops2 += [f"areneighbors {o0} {c}", f"edge {o0} {c}", f"dirfor {o0} {c}", f"lijk {o0} {c}", f"lij {o0} {c} 0",
                     f"dist {o0} {c}", f"dist {c} {o0}", f"path {o0} {c}", f"pathsize {o0} {c}"]
    if t[0] == "edgesfrom" and a.startswith("ok"):
        for e in a.split()[2:]:
            ops2 += [f"edgevalid {e}", f"edgedest {e}", f"edgeorigin {e}", f"edgecells {e}"]
    if t[0] == "c2vs" and a.startswith("ok"):
        for v in a.split()[2:]:
            ops2 += [f"vvalid {v}"]
    if t[0] == "h2fijk" and a.startswith("ok"):
        f, i, j, k = a.split()[1:]
        res = (int(t[1], 16) >> 52) & 15
        ops2 += [f"fijk2h {f} {i} {j} {k} {res}"]
for _ in range(N):
    o = cell(); ox = gen.hx(o)
    ops2 += [f"ij2cell {ox} {rng.randrange(-40, 40)} {rng.randrange(-40, 40)} {rng.choice([0,0,0,1])}",
             f"ijk2cell {ox} {rng.randrange(0, 30)} {rng.randrange(0, 30)} {rng.randrange(0, 30)}",
             f"ij2cell {ox} {rng.choice(gen.EXTREME_INTS)} {rng.choice(gen.EXTREME_INTS)} 0",
             f"overage {rng.randrange(20)} {rng.randrange(0, 60)} {rng.randrange(0, 60)} {rng.randrange(0, 60)} {rng.randrange(0, 5)} {rng.randrange(2)} {rng.randrange(2)}"]
    # far-ish pairs in the same res
    r = rng.randrange(0, 4)
    a_ = gen.rand_cell(rng, res=r); b_ = gen.rand_cell(rng, res=r)
    ops2 += [f"dist {gen.hx(a_)} {gen.hx(b_)}", f"lijk {gen.hx(a_)} {gen.hx(b_)}", f"areneighbors {gen.hx(a_)} {gen.hx(b_)}"]
allops = ops + ops2
ans2 = ctx.c(ops2)
mout = ctx.m(allops)
cans = ans + ans2
bad = collections.Counter(); shown = 0
kinds = collections.Counter()
for o, a, b in zip(allops, cans, mout):
    kinds[o.split()[0] + ":" + a.split()[0]] += 1
    if a != b:
        bad[o.split()[0]] += 1
        if shown < 25:
            print("DIFF", o, "\n   C:", a[:300], "\n   M:", b[:300]); shown += 1
print("ops", len(allops), "diffs", sum(bad.values()), dict(bad))
print("aborts", ctx.aborts[:3])
print(sorted(kinds.items()))
ctx.cleanup()
